#!/bin/bash
# seed_verify.sh <seeded dir>: confirms in a scratch worktree that the patch compiles, passes the
# existing suite, and that the demo fails with it and passes without it.
set -u
export GOFLAGS=-mod=mod GOPROXY=off GOSUMDB=off GOTOOLCHAIN=local
S=$(realpath "$1"); N=$(basename "$S")
WT=/tmp/seedverify_$$
git -C /repo worktree add -q --detach $WT HEAD || exit 2
trap 'git -C /repo worktree remove --force $WT >/dev/null 2>&1' EXIT
cd $WT
T=$(grep -o 'func TestDemo_[A-Za-z0-9_]*' $S/demo_test.go | head -1 | sed 's/func //')
cp $S/demo_test.go zz_demo_test.go
base_demo=$(go test -count=1 -run "^$T\$" . >/tmp/sv_$$.log 2>&1 && echo pass || echo fail)
rm zz_demo_test.go
git apply $S/patch.diff || { echo "$N: PATCH DOES NOT APPLY"; exit 1; }
go build ./... >/dev/null 2>&1 || { echo "$N: DOES NOT COMPILE"; exit 1; }
suite=fail
for i in 1 2 3 4; do
  if go test -count=1 ./... >/tmp/sv_suite_$$.log 2>&1; then suite=pass; break; fi
done
if [ $suite = fail ]; then
  # the proxy tests are load-flaky on the unchanged tree; accept if only those fail
  if go test -count=1 -skip 'Proxy|TestTLSValidationErrors' ./... >/dev/null 2>&1; then suite="pass-except-flaky-proxy-tests"; fi
fi
cp $S/demo_test.go zz_demo_test.go
mut_demo=$(go test -count=1 -run "^$T\$" . >/tmp/sv_$$.log 2>&1 && echo pass || echo fail)
rm zz_demo_test.go
echo "$N: test=$T base_demo=$base_demo suite_with_patch=$suite demo_with_patch=$mut_demo"
rm -f /tmp/sv_$$.log /tmp/sv_suite_$$.log

//go:build verif

package websocket

// Environment models used by the harnesses: scripted transport, random
// source, buffer pool. They are ordinary Go: the engine executes them
// symbolically, the replay executes them natively.

import (
	"errors"
	"io"
	"net"
	"sync"
	"time"
)

const (
	vfOpWrite = iota + 1
	vfOpSetWriteDeadline
	vfOpSetReadDeadline
	vfOpSetDeadline
	vfOpClose
	vfOpRead
)

type vfOp struct {
	kind int
	data []byte // Write: snapshot of the bytes accepted
	t    time.Time
	req  int // Write: len(p) requested
	err  bool
}

type vfNetErr struct {
	timeout bool
}

func (e *vfNetErr) Error() string   { return "vf: injected network error" }
func (e *vfNetErr) Timeout() bool   { return e.timeout }
func (e *vfNetErr) Temporary() bool { return e.timeout }

var vfErrInjected = errors.New("vf: injected transport error")

const (
	vfFaultNone        = 0
	vfFaultEOF         = 1 // EOF on the read after the last delivered byte
	vfFaultEOFWithData = 2 // EOF returned together with the last bytes
	vfFaultErr         = 3 // arbitrary non-EOF error
	vfFaultTimeout     = 4 // net.Error with Timeout() == true
	vfFaultTransient   = 5 // a timeout error reported once; later reads deliver the rest
)

const (
	vfChunkMax    = 0 // as much as fits
	vfChunkOne    = 1 // one byte per Read
	vfChunkMenu   = 2 // choice of {1, 2, max}
	vfChunkScript = 3 // sizes from script, then max
)

// vfConn is the scripted transport.
type vfConn struct {
	lmu           sync.Mutex // a net.Conn is safe for concurrent use: guards the bookkeeping below
	in            []byte
	rpos          int
	cut           int // bytes [cut:] are never delivered
	rfault        int // what happens at the cut
	chunkMode     int
	script        []int
	spos          int
	nreads        int
	rerr          error
	transientDone bool

	ops       []vfOp
	wfailAt   int // index among write-side ops (Write, SetWriteDeadline); -1: never
	wfault    int // 1: error, nothing written; 2: timeout, nothing written; 3: short write + error
	nwops     int
	wfailed   bool
	afterFail int // transport Write calls begun after a fault
	closed    int
	onWrite   func(p []byte) // scripted peers react to what was written
	pipe      net.Conn       // native replay of TLS paths: bytes go to a real peer instead of the script

	strictClose bool // Read fails once Close has been called (handshake harnesses)

	// deadline tracking (C16): the deadline in force at each transport Read / Write
	trackDL  bool
	dlR, dlW time.Time
	dlAtOp   []time.Time
}

func vfNewConn(in []byte) *vfConn {
	return &vfConn{in: in, cut: len(in), rfault: vfFaultEOF, wfailAt: -1}
}

func (c *vfConn) faultErr() error {
	switch c.rfault {
	case vfFaultErr:
		return vfErrInjected
	case vfFaultTimeout:
		return &vfNetErr{timeout: true}
	}
	return io.EOF
}

func (c *vfConn) Read(p []byte) (int, error) {
	vfYield() // the transport may block here for arbitrarily long
	if c.trackDL {
		c.lmu.Lock()
		c.dlAtOp = append(c.dlAtOp, c.dlR)
		c.lmu.Unlock()
	}
	if c.pipe != nil {
		n, err := c.pipe.Read(p)
		c.lmu.Lock()
		c.ops = append(c.ops, vfOp{kind: vfOpRead, req: n})
		c.lmu.Unlock()
		return n, err
	}
	if c.strictClose {
		// a closed connection fails its reads (as every real net.Conn does)
		c.lmu.Lock()
		closed := c.closed > 0
		c.lmu.Unlock()
		if closed {
			return 0, net.ErrClosed
		}
	}
	c.nreads++
	if c.rerr != nil {
		return 0, c.rerr
	}
	avail := c.cut - c.rpos
	if avail <= 0 && c.rfault == vfFaultTransient && !c.transientDone {
		c.transientDone = true
		c.cut = len(c.in)
		return 0, &vfNetErr{timeout: true}
	}
	if avail <= 0 {
		c.rerr = c.faultErr()
		return 0, c.rerr
	}
	if len(p) == 0 {
		return 0, nil
	}
	max := len(p)
	if avail < max {
		max = avail
	}
	n := max
	switch c.chunkMode {
	case vfChunkOne:
		n = 1
	case vfChunkMenu:
		switch vfChoose(3) {
		case 0:
			n = max
		case 1:
			n = 1
		case 2:
			if max >= 2 {
				n = 2
			} else {
				n = 1
			}
		}
	case vfChunkScript:
		if c.spos < len(c.script) {
			n = c.script[c.spos]
			c.spos++
			if n > max {
				n = max
			}
			if n < 1 {
				n = 1
			}
		}
	}
	copy(p, c.in[c.rpos:c.rpos+n])
	c.rpos += n
	if c.rfault == vfFaultEOFWithData && c.rpos == c.cut {
		c.rerr = io.EOF
		return n, io.EOF
	}
	return n, nil
}

func (c *vfConn) wfaultNow() bool {
	k := c.nwops
	c.nwops++
	return k == c.wfailAt
}

func (c *vfConn) Write(p []byte) (int, error) {
	vfYield() // the transport may block here for arbitrarily long
	c.lmu.Lock()
	defer c.lmu.Unlock()
	if c.trackDL {
		c.dlAtOp = append(c.dlAtOp, c.dlW)
	}
	if c.wfailed {
		c.afterFail++
	}
	if c.wfaultNow() {
		c.wfailed = true
		switch c.wfault {
		case 2:
			c.ops = append(c.ops, vfOp{kind: vfOpWrite, req: len(p), err: true})
			return 0, &vfNetErr{timeout: true}
		case 3:
			k := len(p) / 2
			c.ops = append(c.ops, vfOp{kind: vfOpWrite, data: append([]byte(nil), p[:k]...), req: len(p), err: true})
			return k, vfErrInjected
		}
		c.ops = append(c.ops, vfOp{kind: vfOpWrite, req: len(p), err: true})
		return 0, vfErrInjected
	}
	c.ops = append(c.ops, vfOp{kind: vfOpWrite, data: append([]byte(nil), p...), req: len(p)})
	if c.pipe != nil {
		return c.pipe.Write(p)
	}
	if c.onWrite != nil {
		c.onWrite(p)
	}
	return len(p), nil
}

func (c *vfConn) Close() error {
	vfYield()
	c.lmu.Lock()
	defer c.lmu.Unlock()
	c.closed++
	c.ops = append(c.ops, vfOp{kind: vfOpClose})
	if c.pipe != nil {
		c.pipe.Close()
	}
	return nil
}

func (c *vfConn) LocalAddr() net.Addr  { return nil }
func (c *vfConn) RemoteAddr() net.Addr { return nil }

func (c *vfConn) SetDeadline(t time.Time) error {
	c.lmu.Lock()
	defer c.lmu.Unlock()
	c.ops = append(c.ops, vfOp{kind: vfOpSetDeadline, t: t})
	c.dlR, c.dlW = t, t
	return nil
}

func (c *vfConn) SetReadDeadline(t time.Time) error {
	c.lmu.Lock()
	defer c.lmu.Unlock()
	c.ops = append(c.ops, vfOp{kind: vfOpSetReadDeadline, t: t})
	c.dlR = t
	return nil
}

func (c *vfConn) SetWriteDeadline(t time.Time) error {
	vfYield()
	c.lmu.Lock()
	defer c.lmu.Unlock()
	if c.wfaultNow() {
		c.wfailed = true
		c.ops = append(c.ops, vfOp{kind: vfOpSetWriteDeadline, t: t, err: true})
		if c.wfault == 2 {
			return &vfNetErr{timeout: true}
		}
		return vfErrInjected
	}
	c.ops = append(c.ops, vfOp{kind: vfOpSetWriteDeadline, t: t})
	c.dlW = t
	return nil
}

// wire returns everything written so far.
func (c *vfConn) wire() []byte {
	var w []byte
	for _, op := range c.ops {
		if op.kind == vfOpWrite {
			w = append(w, op.data...)
		}
	}
	return w
}

func (c *vfConn) nWrites() int {
	n := 0
	for _, op := range c.ops {
		if op.kind == vfOpWrite {
			n++
		}
	}
	return n
}

// vfRand is the model of crypto/rand.Reader and maskRand: fresh arbitrary
// bytes on every draw, each draw logged.
type vfRand struct {
	mu    sync.Mutex // crypto/rand.Reader is safe for concurrent use
	draws [][]byte
	fixed bool // deliver fixed bytes instead of arbitrary ones (two-dimension tiers)
}

func (r *vfRand) Read(p []byte) (int, error) {
	r.mu.Lock()
	defer r.mu.Unlock()
	d := make([]byte, len(p))
	for i := range p {
		if r.fixed {
			p[i] = byte(0x5a + 7*i)
		} else {
			p[i] = vfByte()
		}
		d[i] = p[i]
	}
	r.draws = append(r.draws, d)
	return len(p), nil
}

var vfMaskRand *vfRand

// vfInit installs the environment models; every harness calls it first.
func vfInit() {
	vfMaskRand = &vfRand{}
	maskRand = vfMaskRand
}

// vfPool is the instrumented BufferPool model.
type vfPool struct {
	mu     sync.Mutex
	items  []interface{}
	gets   int
	puts   int
	log    []int // +1 get, -1 put
	held   []interface{}
	reuse  bool // Get returns a previously Put value when available
	poison bool // overwrite released buffers with arbitrary bytes
}

func (p *vfPool) Get() interface{} {
	p.mu.Lock()
	defer p.mu.Unlock()
	p.gets++
	p.log = append(p.log, 1)
	if p.reuse && len(p.items) > 0 {
		v := p.items[len(p.items)-1]
		p.items = p.items[:len(p.items)-1]
		return v
	}
	return nil
}

func (p *vfPool) Put(v interface{}) {
	p.mu.Lock()
	defer p.mu.Unlock()
	p.puts++
	p.log = append(p.log, -1)
	if p.poison {
		if wpd, ok := v.(writePoolData); ok {
			for i := range wpd.buf {
				wpd.buf[i] = vfByte()
			}
		}
	}
	p.items = append(p.items, v)
}

// vfChunkReader is an io.Reader over data returning at most chunk bytes per
// call; used to drive ReadFrom / io.Copy.
type vfChunkReader struct {
	data        []byte
	pos         int
	chunk       int
	eofWithData bool
}

func (r *vfChunkReader) Read(p []byte) (int, error) {
	if r.pos >= len(r.data) {
		return 0, io.EOF
	}
	n := len(r.data) - r.pos
	if n > len(p) {
		n = len(p)
	}
	if r.chunk > 0 && n > r.chunk {
		n = r.chunk
	}
	copy(p, r.data[r.pos:r.pos+n])
	r.pos += n
	if r.eofWithData && r.pos == len(r.data) {
		return n, io.EOF
	}
	return n, nil
}

//go:build verif

package websocket

import (
	"crypto/rand"
	"time"
)

// vfH_wire_thresholds (C01.H2 / C02): single frames at the 7/16/64-bit length
// thresholds, through the server fast path (header + extra), the server
// direct-write path and a client whose buffer holds the whole frame.
func vfH_wire_thresholds() {
	vfInit()
	tier := vfParam("tier", 0)
	lens := []int{124, 125, 126, 127, 65535, 65536}
	if tier >= 1 {
		lens = []int{124, 125, 126, 127, 128, 65534, 65535, 65536, 65537}
	}
	n := vfPick(lens)
	prog := vfChoose(3)
	if tier == 0 && prog == 2 && n > 200 {
		vfAssume(false) // large client buffers: thorough tier only
	}
	isServer := prog != 2
	W := 16
	if prog == 2 {
		W = n
	}
	wt := vfNewConn(nil)
	wc := newConn(wt, isServer, 0, W, nil, nil, nil)
	data := vfBytes(n)
	orig := append([]byte(nil), data...)
	mt := 1 + n%2
	switch prog {
	case 0: // server WriteMessage fast path: one frame, payload in "extra"
		vfAssert(wc.WriteMessage(mt, data) == nil, "write-accepted")
	case 1: // server NextWriter + one big Write: direct (unbuffered) path
		vfAssert(vfDoWrite(wc, vfWPWriterOne, mt, data, 0) == nil, "write-accepted")
	case 2: // client, buffer exactly as large as the payload
		vfAssert(wc.WriteMessage(mt, data) == nil, "write-accepted")
	}
	wire := wt.wire()
	s := vfJudgeWire(wire, !isServer, false, []vfSent{{mt, orig, false}}, 0)
	if prog != 1 {
		vfAssert(len(s.frames) == 1, "threshold-single-frame")
		want := 0
		if n > 125 {
			want = 1
		}
		if n > 65535 {
			want = 2
		}
		vfAssert(s.frames[0].lenForm == want, "threshold-minimal-length-form")
	}
	vfReadBack(wire, !isServer, false, []vfSent{{mt, orig, false}}, 0, 0)
	vfReach("thresholds-end")
}

// vfH_control_step (C02.H3 / C10): WriteControl with an arbitrary message
// type, payload length around the limit and an arbitrary deadline.
func vfH_control_step() {
	vfInit()
	isServer := vfChoose(2) == 1
	n := vfPick([]int{0, 1, 2, 124, 125, 126, 130})
	t := vfInt()
	payload := vfBytes(n)
	orig := append([]byte(nil), payload...)
	deadline := vfDeadline()
	wt := vfNewConn(nil)
	wc := newConn(wt, isServer, 0, 8, nil, nil, nil)
	err := wc.WriteControl(t, payload, deadline)
	valid := vfAnd(vfOr(vfOr(t == 8, t == 9), t == 10), n <= 125)
	if err == nil {
		vfAssert(valid, "c10-invalid-control-refused")
		vfAssert(wt.nWrites() == 1, "control-one-write")
		f, next, ok := specDecodeFrame(wt.wire(), 0)
		vfAssert(ok && next == len(wt.wire()), "control-frame-decodes")
		vfAssert(f.fin && !f.rsv1 && !f.rsv2 && !f.rsv3, "control-fin-rsv")
		vfAssert(f.opcode == t, "control-opcode")
		vfAssert(f.masked == !isServer, "control-masked-iff-client")
		vfAssert(f.lenForm == 0 && f.length == n, "control-length")
		vfAssert(vfAllEq(f.payload, orig), "control-payload")
		// C10: written under its own deadline argument
		// the deadline in force on the transport when the frame is written is the call's own
		var eff time.Time
		for _, op := range wt.ops {
			if op.kind == vfOpSetWriteDeadline {
				eff = op.t
			}
			if op.kind == vfOpWrite {
				vfAssert(eff == deadline, "c10-control-own-deadline")
			}
		}
		if !isServer {
			vfAssert(len(vfMaskRand.draws) == 1 && vfAllEq(f.key[:], vfMaskRand.draws[0]), "mask-key-fresh-draw")
		}
		vfReach("control-accepted")
	} else {
		vfAssert(len(wt.ops) == 0, "c10-refused-control-writes-nothing")
		if valid {
			// only an already expired deadline can refuse a valid control message
			ne, isNet := err.(*netError)
			vfAssert(isNet && ne.Timeout(), "control-refused-only-by-timeout")
			vfAssert(!deadline.IsZero(), "control-zero-deadline-never-times-out")
		}
		vfReach("control-refused")
	}
	if t != 8 || err != nil {
		// not poisoned: a following valid ping goes out
		err2 := wc.WriteControl(PingMessage, []byte("x"), time.Time{})
		vfAssert(err2 == nil, "c10-not-poisoned")
	}
}

// vfH_mask_keys (C02): every frame a client builds carries its own fresh draw
// from the mask source, in order; the source is crypto/rand.
func vfH_mask_keys() {
	vfAssert(maskRand == rand.Reader, "mask-source-is-crypto-rand")
	vfInit()
	W := vfPick([]int{2, 8})
	wt := vfNewConn(nil)
	wc := newConn(wt, false, 0, W, nil, nil, nil)
	M := 2
	nframes := 0
	for i := 0; i < M; i++ {
		wp := vfPick([]int{vfWPWriteMessage, vfWPWriterSplit, vfWPPingBetween, vfWPReadFrom})
		n := vfPick([]int{0, 1, W + 1, 2*W + 1})
		vfAssert(vfDoWrite(wc, wp, BinaryMessage, vfBytes(n), 1) == nil, "write-accepted")
	}
	s := specDecodeStream(wt.wire(), true, false)
	vfAssert(s.ok, "wire-wellformed")
	nframes = len(s.frames)
	vfAssert(len(vfMaskRand.draws) == nframes, "mask-one-draw-per-frame")
	for i, f := range s.frames {
		vfAssert(len(vfMaskRand.draws[i]) == 4, "mask-draw-is-4-bytes")
		vfAssert(vfAllEq(f.key[:], vfMaskRand.draws[i]), "mask-key-is-its-own-fresh-draw")
	}
	vfReach("mask-keys-end")
}

//go:build verif

package websocket

func vfH_smoke() {
	x := vfByte()
	y := vfByte()
	var s int
	if x > 10 {
		s = int(x) + int(y)
	} else {
		s = int(y)
	}
	vfAssert(s >= int(y), "sum-ge")
	b := vfBytes(20)
	c := make([]byte, 20)
	copy(c, b)
	key := [4]byte{vfByte(), vfByte(), vfByte(), vfByte()}
	p := maskBytes(key, 0, c)
	maskBytes(key, 0, c)
	vfAssert(p == 0, "pos")
	vfAssert(vfAllEq(b, c), "mask-involution")
	vfReach("end")
}

func vfH_smoke_bad() {
	x := vfU16()
	vfAssert(x != 12345, "neq")
}

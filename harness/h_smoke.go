//go:build verif

package websocket

import (
	"bufio"
	"bytes"
	"encoding/binary"
	"io"
	"net/http"
	"strings"
	"unicode/utf8"
)

func vfH_smoke() {
	x := vfByte()
	y := vfByte()
	var s int
	if x > 10 {
		s = int(x) + int(y)
	} else {
		s = int(y)
	}
	vfAssert(s >= int(y), "sum-ge")
	b := vfBytes(20)
	c := make([]byte, 20)
	copy(c, b)
	key := [4]byte{vfByte(), vfByte(), vfByte(), vfByte()}
	p := maskBytes(key, 0, c)
	maskBytes(key, 0, c)
	vfAssert(p == 0, "pos")
	vfAssert(vfAllEq(b, c), "mask-involution")
	vfReach("end")
}

func vfH_smoke_bad() {
	x := vfU16()
	vfAssert(x != 12345, "neq")
}

// vfH_smoke_stdlib: standard-library helpers a refactoring of the library may start using.
func vfH_smoke_stdlib() {
	s := vfString(3)
	var sb strings.Builder
	sb.WriteString("ab")
	sb.WriteByte(s[0])
	sb.WriteString(s[1:])
	out := sb.String()
	vfAssert(len(out) == 5 && out[2] == s[0] && out[4] == s[2], "builder")
	t := strings.TrimLeft(" \t"+s, " \t")
	vfAssert(len(t) <= 3, "trimleft")
	i := strings.IndexFunc("ab,"+s, func(r rune) bool { return r == ',' })
	vfAssert(i == 2, "indexfunc")
	b := binary.BigEndian.AppendUint16(nil, uint16(s[0])<<8|uint16(s[1]))
	vfAssert(len(b) == 2 && b[0] == s[0] && b[1] == s[1], "appenduint16")
	br := bufio.NewReaderSize(bytes.NewReader([]byte("hello"+s)), 16)
	p, err := br.Peek(6)
	vfAssert(err == nil && p[5] == s[0], "peek")
	n, _ := br.Discard(6)
	vfAssert(n == 6, "discard")
	rest, _ := io.ReadAll(io.LimitReader(br, 1))
	vfAssert(len(rest) == 1 && rest[0] == s[1], "readall-limit")
	var rc io.ReadCloser = http.NoBody
	vfAssert(rc != nil, "nobody")
	vfReach("smoke-stdlib-end")
}

// vfH_smoke_range: range over a symbolic string decodes UTF-8 like the runtime.
func vfH_smoke_range() {
	s := vfString(3)
	n, sum := 0, rune(0)
	for i, r := range s {
		_ = i
		n++
		sum += r
	}
	// reference: count of non-continuation... compare with the explicit decoder
	m, sum2 := 0, rune(0)
	for rest := s; len(rest) > 0; {
		r, w := utf8.DecodeRuneInString(rest)
		rest = rest[w:]
		m++
		sum2 += r
	}
	vfAssert(n == m && sum == sum2, "range-decodes-like-utf8")
	vfReach("smoke-range-end")
}

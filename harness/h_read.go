//go:build verif

package websocket

import (
	"io"
)

// ---- independent stream generator (reference encoder) ----

type vfGenMsg struct {
	mt    int
	data  []byte // application payload
	frags []int  // wire fragment lengths (of the possibly compressed payload)
	comp  bool
	start int // wire offset of its first frame
	end   int // wire offset just after its last frame
}

type vfGenCtl struct {
	op       int
	payload  []byte
	msgIndex int // data messages completed before it
	dataSeen int // application bytes of the current message on the wire before it (uncompressed messages)
	inMsg    bool
	at       int // wire offset
}

type vfGen struct {
	fromClient bool
	wire       []byte
	msgs       []vfGenMsg
	ctls       []vfGenCtl
	bounds     []int // structural boundaries (frame starts, header ends)
}

func (g *vfGen) key() [4]byte {
	if !g.fromClient {
		return [4]byte{}
	}
	return [4]byte{vfByte(), vfByte(), vfByte(), vfByte()}
}

func (g *vfGen) frame(fin, rsv1 bool, op int, payload []byte) {
	g.bounds = append(g.bounds, len(g.wire))
	f := specEncodeFrame(fin, rsv1, op, g.fromClient, g.key(), payload)
	g.bounds = append(g.bounds, len(g.wire)+len(f)-len(payload))
	g.wire = append(g.wire, f...)
}

func (g *vfGen) ctl(op int, payload []byte, inMsg bool, dataSeen int) {
	g.ctls = append(g.ctls, vfGenCtl{op: op, payload: payload, msgIndex: len(g.msgs), dataSeen: dataSeen, inMsg: inMsg, at: len(g.wire)})
	g.frame(true, false, op, payload)
}

// message emits one data message fragmented as frags (sum = len(wire payload));
// ctlAfter >= 0 inserts a control frame after that fragment index (-1: none;
// -2: before the first fragment).
func (g *vfGen) message(mt int, data []byte, comp bool, blk int, frags []int, ctlAfter int, ctlOp int, ctlPayload []byte) {
	wp := data
	if comp {
		wp = specDeflateStored(data, blk, false)
	}
	// normalise fragment sizes to the wire payload length
	var fl []int
	rem := len(wp)
	for i, f := range frags {
		if i == len(frags)-1 || f > rem {
			f = rem
		}
		fl = append(fl, f)
		rem -= f
	}
	m := vfGenMsg{mt: mt, data: data, frags: fl, comp: comp}
	if ctlAfter == -2 {
		g.ctl(ctlOp, ctlPayload, false, 0)
	}
	m.start = len(g.wire)
	off := 0
	for i, f := range fl {
		op := 0
		if i == 0 {
			op = mt
		}
		fin := i == len(fl)-1
		g.frame(fin, comp && i == 0, op, wp[off:off+f])
		off += f
		if ctlAfter == i && !fin {
			g.ctl(ctlOp, ctlPayload, true, off)
		}
	}
	m.end = len(g.wire)
	g.msgs = append(g.msgs, m)
	if ctlAfter >= len(fl)-1 && ctlAfter >= 0 {
		g.ctl(ctlOp, ctlPayload, false, 0)
	}
}

var vfFragShapes = [][]int{{-1}, {0, -1}, {1, -1}, {2, -1}, {1, 2, -1}, {0, 0, -1}, {3, 0, -1}}

// vfGenStream builds a conformant stream of M messages from case-split shapes.
func vfGenStream(fromClient bool, pmce bool, M int, lens []int, tier int) *vfGen {
	g := &vfGen{fromClient: fromClient}
	for i := 0; i < M; i++ {
		n := vfPick(lens)
		data := vfBytes(n)
		mt := 1 + (n+i)%2
		comp := pmce && vfChoose(2) == 1
		blk := 0
		if comp && n > 2 {
			blk = vfPick([]int{0, 2})
		}
		shape := vfFragShapes[vfChoose(len(vfFragShapes))]
		frags := make([]int, len(shape))
		copy(frags, shape)
		ctlAfter := -1
		ctlOp := PingMessage
		var cp []byte
		switch vfChoose(4) {
		case 1:
			ctlAfter = -2
		case 2:
			ctlAfter = 0
			ctlOp = PongMessage
			cp = vfBytes(2)
		case 3:
			ctlAfter = len(frags) - 1
			cp = vfBytes(1)
		}
		g.message(mt, data, comp, blk, frags, ctlAfter, ctlOp, cp)
	}
	return g
}

type vfCtlEvent struct {
	op      int
	payload string
	msgs    int // messages fully delivered before it
}

// vfH_read_e2e (C03): the reader against any conformant stream from the
// reference encoder: fragmentation incl. empty frames, control frames at every
// position, stored-block compressed messages, all mask keys; read programs
// incl. abandoning a message part-way; transport chunkings.
func vfH_read_e2e() {
	vfInit()
	tier := vfParam("tier", 0)
	M := vfParam("M", 1)
	readerIsServer := vfChoose(2) == 1
	pmce := vfChoose(2) == 1
	lens := []int{0, 1, 5}
	if tier >= 1 {
		lens = []int{0, 1, 2, 5, 9, 130}
	}
	g := vfGenStream(readerIsServer, pmce, M, lens, tier)
	tc := vfNewConn(g.wire)
	switch vfChoose(3) {
	case 1:
		tc.chunkMode = vfChunkOne
	case 2:
		tc.chunkMode = vfChunkScript
		if len(g.bounds) > 0 {
			b := g.bounds[vfChoose(len(g.bounds))]
			tc.script = []int{b + vfChoose(2)}
		}
	}
	R := 125
	rc := vfReaderConn(tc, readerIsServer, R)
	if pmce {
		rc.newDecompressionReader = decompressNoContextTakeover
	}
	var events []vfCtlEvent
	delivered := 0
	rc.SetPingHandler(func(s string) error { events = append(events, vfCtlEvent{PingMessage, s, delivered}); return nil })
	rc.SetPongHandler(func(s string) error { events = append(events, vfCtlEvent{PongMessage, s, delivered}); return nil })
	rp := vfChoose(4) // 0 ReadMessage, 1 NextReader+Read(a), 2 abandon after k bytes, 3 Join
	a := vfPick([]int{1, 3, 200})
	if rp == 3 {
		r := JoinMessages(rc, "\n")
		var all []byte
		buf := make([]byte, a)
		for i := 0; ; i++ {
			n, err := r.Read(buf)
			all = append(all, buf[:n]...)
			if err != nil {
				vfAssert(IsCloseError(err, CloseAbnormalClosure), "join-ends-at-stream-end")
				break
			}
			vfAssert(i < 6*len(g.wire)+64, "reader-makes-progress")
		}
		var want []byte
		for _, m := range g.msgs {
			want = append(want, m.data...)
			want = append(want, '\n')
		}
		vfAssert(len(all) == len(want), "c03-join-length")
		vfAssert(vfAllEq(all, want), "c03-join-payload")
	} else {
		for i, m := range g.msgs {
			if rp == 2 {
				// abandon this message after k bytes; the next NextReader must skip the rest
				mt, r, err := rc.NextReader()
				vfAssert(err == nil, "c03-message-arrives")
				vfAssert(mt == m.mt, "c03-type")
				k := vfPick(vfDedup([]int{0, 1, len(m.data) - 1}, len(m.data)))
				if k > 0 {
					buf := make([]byte, k)
					n, err := io.ReadFull(r, buf)
					vfAssert(err == nil && n == k, "c03-partial-read")
					vfAssert(vfAllEq(buf, m.data[:k]), "c03-partial-payload")
				}
				delivered = i + 1
				continue
			}
			g1, ok := vfReadOne(rc, rp, a)
			vfAssert(ok, "c03-message-arrives")
			vfAssert(g1.err == nil, "c03-eof-at-true-end")
			vfAssert(g1.mt == m.mt, "c03-type")
			vfAssert(len(g1.data) == len(m.data), "c03-length")
			vfAssert(vfAllEq(g1.data, m.data), "c03-payload")
			delivered = i + 1
		}
		_, _, err := rc.NextReader()
		vfAssert(IsCloseError(err, CloseAbnormalClosure), "c03-stream-end-reported")
	}
	// every control frame dispatched exactly once, in wire order, exact payload
	vfAssert(len(events) == len(g.ctls), "c08-each-control-frame-once")
	for i, c := range g.ctls {
		if i < len(events) {
			vfAssert(events[i].op == c.op, "c08-control-order")
			vfAssert(vfAllEq([]byte(events[i].payload), c.payload), "c08-control-payload")
		}
	}
	vfReach("read-e2e-end")
}

// vfH_fault_read (C05): a conformant stream cut at every offset, with every
// fault kind an io.Reader may legally use, under two chunkings and several
// read programs. No message is reported complete unless it fully arrived and
// equals what was sent; a cut message ends with a non-EOF error; errors stick.
func vfH_fault_read() {
	vfInit()
	tier := vfParam("tier", 0)
	readerIsServer := vfChoose(2) == 1
	pmce := false
	g := &vfGen{fromClient: readerIsServer}
	shape := vfChoose(4)
	R := 125
	switch shape {
	case 0: // one unfragmented message, then a fragmented one
		g.message(TextMessage, vfBytes(3), false, 0, []int{-1}, -1, 0, nil)
		g.message(BinaryMessage, vfBytes(5), false, 0, []int{2, -1}, 0, PingMessage, vfBytes(1))
	case 1: // fragmented message whose non-final frame is larger than the read buffer
		g.message(TextMessage, vfBytes(R+40), false, 0, []int{R + 20, -1}, -1, 0, nil)
	case 2: // 16-bit length, unfragmented, larger than the read buffer
		g.message(BinaryMessage, vfBytes(R+10), false, 0, []int{-1}, -1, 0, nil)
	case 3: // compressed (stored-block model), fragmented
		pmce = true
		g.message(TextMessage, vfBytes(4), true, 0, []int{3, -1}, -1, 0, nil)
	}
	T := len(g.wire)
	var cuts []int
	if T <= 40 || tier >= 1 {
		for i := 0; i <= T; i++ {
			cuts = append(cuts, i)
		}
	} else {
		// long streams (quick tier): every structural boundary and its neighbours
		for _, b := range g.bounds {
			cuts = append(cuts, b-1, b, b+1)
		}
		cuts = append(cuts, T-1, T, T/2)
		cuts = vfDedup(cuts, T)
	}
	cut := vfPick(cuts)
	kind := 1 + vfChoose(4)
	tc := vfNewConn(g.wire)
	tc.cut = cut
	tc.rfault = kind
	chunk := vfChoose(3)
	chunkOne := chunk == 1
	if chunkOne {
		tc.chunkMode = vfChunkOne
	}
	if chunk == 2 {
		// the first header arrives alone, everything else in as few reads as possible
		tc.chunkMode = vfChunkScript
		tc.script = []int{g.bounds[1]}
	}
	rc := vfReaderConn(tc, readerIsServer, R)
	if pmce {
		rc.newDecompressionReader = decompressNoContextTakeover
	}
	rc.SetPingHandler(func(string) error { return nil })
	rp := vfChoose(2)
	a := vfPick([]int{1, R, 2 * R})
	var nrErr error
	failed := false
	for i, m := range g.msgs {
		g1, ok := vfReadOne(rc, rp, a)
		complete := ok && g1.err == nil
		if complete {
			// (a) reported complete => completely received and identical
			vfAssert(m.end <= cut, "c05-complete-only-if-fully-received")
			vfAssert(g1.mt == m.mt, "c05-type")
			vfAssert(len(g1.data) == len(m.data), "c05-length")
			vfAssert(vfAllEq(g1.data, m.data), "c05-payload")
		} else {
			// (b) a message that had fully arrived before the failing read is reported
			arrivedBefore := m.end < cut || (m.end == cut && kind != vfFaultEOFWithData)
			if kind == vfFaultEOFWithData && !chunkOne {
				arrivedBefore = false // the failing read may have carried the message itself
			}
			vfAssert(!arrivedBefore, "c05-arrived-message-is-reported")
			// (c) never io.EOF / nil for an incomplete message
			if ok {
				vfAssert(g1.err != nil && g1.err != io.EOF, "c05-cut-message-ends-with-error")
			} else {
				vfAssert(g1.err != nil, "c05-cut-message-ends-with-error")
				nrErr = g1.err
			}
			failed = true
			_ = i
			break
		}
	}
	// (d) after the failure NextReader returns one and the same error forever
	_, r1, e1 := rc.NextReader()
	_, r2, e2 := rc.NextReader()
	_, r3, e3 := rc.NextReader()
	vfAssert(e1 != nil && e1 == e2 && e2 == e3, "c05-error-is-sticky")
	vfAssert(r1 == nil && r2 == nil && r3 == nil, "c05-nothing-delivered-after-error")
	if nrErr != nil {
		vfAssert(e1 == nrErr, "c05-same-error-as-first")
	}
	if failed {
		vfReach("fault-read-failed-message")
	} else {
		vfReach("fault-read-all-complete")
	}
}

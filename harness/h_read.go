//go:build verif

package websocket

import (
	"io"
)

// ---- independent stream generator (reference encoder) ----

type vfGenMsg struct {
	mt    int
	data  []byte // application payload
	frags []int  // wire fragment lengths (of the possibly compressed payload)
	comp  bool
	start int // wire offset of its first frame
	end   int // wire offset just after its last frame
}

type vfGenCtl struct {
	op       int
	payload  []byte
	msgIndex int // data messages completed before it
	dataSeen int // application bytes of the current message on the wire before it (uncompressed messages)
	inMsg    bool
	at       int // wire offset
}

type vfGen struct {
	bfinal     bool // compressed messages end with a BFINAL block (RFC 7692 7.2.3.4)
	fromClient bool
	wire       []byte
	msgs       []vfGenMsg
	ctls       []vfGenCtl
	bounds     []int // structural boundaries (frame starts, header ends)
}

func (g *vfGen) key() [4]byte {
	if !g.fromClient {
		return [4]byte{}
	}
	return [4]byte{vfByte(), vfByte(), vfByte(), vfByte()}
}

func (g *vfGen) frame(fin, rsv1 bool, op int, payload []byte) {
	g.bounds = append(g.bounds, len(g.wire))
	f := specEncodeFrame(fin, rsv1, op, g.fromClient, g.key(), payload)
	g.bounds = append(g.bounds, len(g.wire)+len(f)-len(payload))
	g.wire = append(g.wire, f...)
}

func (g *vfGen) ctl(op int, payload []byte, inMsg bool, dataSeen int) {
	g.ctls = append(g.ctls, vfGenCtl{op: op, payload: payload, msgIndex: len(g.msgs), dataSeen: dataSeen, inMsg: inMsg, at: len(g.wire)})
	g.frame(true, false, op, payload)
}

// message emits one data message fragmented as frags (sum = len(wire payload));
// ctlAfter >= 0 inserts a control frame after that fragment index (-1: none;
// -2: before the first fragment).
func (g *vfGen) message(mt int, data []byte, comp bool, blk int, frags []int, ctlAfter int, ctlOp int, ctlPayload []byte) {
	wp := data
	if comp {
		wp = specDeflateStoredF(data, blk, g.bfinal)
	}
	// normalise fragment sizes to the wire payload length
	var fl []int
	rem := len(wp)
	for i, f := range frags {
		if i == len(frags)-1 || f > rem {
			f = rem
		}
		fl = append(fl, f)
		rem -= f
	}
	m := vfGenMsg{mt: mt, data: data, frags: fl, comp: comp}
	if ctlAfter == -2 {
		g.ctl(ctlOp, ctlPayload, false, 0)
	}
	m.start = len(g.wire)
	off := 0
	for i, f := range fl {
		op := 0
		if i == 0 {
			op = mt
		}
		fin := i == len(fl)-1
		g.frame(fin, comp && i == 0, op, wp[off:off+f])
		off += f
		if ctlAfter == i && !fin {
			g.ctl(ctlOp, ctlPayload, true, off)
		}
	}
	m.end = len(g.wire)
	g.msgs = append(g.msgs, m)
	if ctlAfter >= len(fl)-1 && ctlAfter >= 0 {
		g.ctl(ctlOp, ctlPayload, false, 0)
	}
}

var vfFragShapes = [][]int{{-1}, {0, -1}, {1, -1}, {2, -1}, {1, 2, -1}, {0, 0, -1}, {3, 0, -1}}

// vfGenStream builds a conformant stream of M messages from case-split shapes.
func vfGenStream(fromClient bool, pmce bool, M int, lens []int, tier int) *vfGen {
	g := &vfGen{fromClient: fromClient}
	vfFlateEOFWithData = pmce
	for i := 0; i < M; i++ {
		n := vfPick(lens)
		data := vfBytes(n)
		mt := 1 + (n+i)%2
		comp := false
		g.bfinal = false
		if pmce {
			switch vfChoose(3) {
			case 1:
				comp = true
			case 2:
				comp, g.bfinal = true, true // the message's deflate stream ends with a BFINAL block
			}
		}
		blk := 0
		if comp && n > 2 {
			blk = vfPick([]int{0, 2})
		}
		shapes := vfFragShapes
		if vfParam("small", 0) == 1 {
			shapes = [][]int{{-1}, {1, -1}, {0, 2, -1}}
		}
		shape := shapes[vfChoose(len(shapes))]
		frags := make([]int, len(shape))
		copy(frags, shape)
		ctlAfter := -1
		ctlOp := PingMessage
		var cp []byte
		nctl := 4
		if vfParam("small", 0) == 1 {
			nctl = 3
		}
		switch vfChoose(nctl) {
		case 1:
			ctlAfter = 0
			ctlOp = PongMessage
			cp = vfBytes(2)
		case 2:
			ctlAfter = -2
		case 3:
			ctlAfter = len(frags) - 1
			cp = vfBytes(1)
		}
		g.message(mt, data, comp, blk, frags, ctlAfter, ctlOp, cp)
	}
	return g
}

type vfCtlEvent struct {
	op      int
	payload string
	msgs    int // messages fully delivered before it
	bytes   int // bytes of the current message delivered before it (read program 1)
}

// vfH_read_e2e (C03): the reader against any conformant stream from the
// reference encoder: fragmentation incl. empty frames, control frames at every
// position, stored-block compressed messages, all mask keys; read programs
// incl. abandoning a message part-way; transport chunkings.
func vfH_read_e2e() {
	vfInit()
	tier := vfParam("tier", 0)
	M := vfParam("M", 1)
	readerIsServer := vfChoose(2) == 1
	pmce := vfChoose(2) == 1
	lens := []int{0, 1, 5}
	if tier >= 1 {
		lens = []int{0, 1, 2, 5, 9, 130}
	}
	if vfParam("small", 0) == 1 {
		lens = []int{0, 3}
	}
	g := vfGenStream(readerIsServer, pmce, M, lens, tier)
	tc := vfNewConn(g.wire)
	switch vfChoose(3) {
	case 1:
		tc.chunkMode = vfChunkOne
	case 2:
		tc.chunkMode = vfChunkScript
		if len(g.bounds) > 0 {
			b := g.bounds[vfChoose(len(g.bounds))]
			tc.script = []int{b + vfChoose(2)}
		}
	}
	R := 125
	rc := vfReaderConn(tc, readerIsServer, R)
	if pmce {
		rc.newDecompressionReader = decompressNoContextTakeover
	}
	var events []vfCtlEvent
	delivered := 0
	curBytes := 0
	rc.SetPingHandler(func(s string) error {
		events = append(events, vfCtlEvent{PingMessage, s, delivered, curBytes})
		return nil
	})
	rc.SetPongHandler(func(s string) error {
		events = append(events, vfCtlEvent{PongMessage, s, delivered, curBytes})
		return nil
	})
	rp := vfChoose(4) // 0 ReadMessage, 1 NextReader+Read(a), 2 abandon after k bytes, 3 Join
	a := 200
	if rp == 1 || rp == 3 {
		a = vfPick([]int{1, 3, 200})
	}
	if rp == 3 {
		term := "\n"
		if a == 3 {
			term = "" // no terminator: message ends are invisible to the joined reader's client
		}
		r := JoinMessages(rc, term)
		var all []byte
		buf := make([]byte, a)
		for i := 0; ; i++ {
			n, err := r.Read(buf)
			all = append(all, buf[:n]...)
			if err != nil {
				vfAssert(IsCloseError(err, CloseAbnormalClosure), "join-ends-at-stream-end")
				break
			}
			vfAssert(i < 6*len(g.wire)+64, "reader-makes-progress")
		}
		var want []byte
		for _, m := range g.msgs {
			want = append(want, m.data...)
			want = append(want, term...)
		}
		vfAssert(len(all) == len(want), "c03-join-length")
		vfAssert(vfAllEq(all, want), "c03-join-payload")
	} else {
		for i, m := range g.msgs {
			if rp == 2 {
				// abandon this message after k bytes; the next NextReader must skip the rest
				mt, r, err := rc.NextReader()
				vfAssert(err == nil, "c03-message-arrives")
				vfAssert(mt == m.mt, "c03-type")
				k := vfPick(vfDedup([]int{0, 1, len(m.data) - 1}, len(m.data)))
				if k > 0 {
					buf := make([]byte, k)
					n, err := io.ReadFull(r, buf)
					vfAssert(err == nil && n == k, "c03-partial-read")
					vfAssert(vfAllEq(buf, m.data[:k]), "c03-partial-payload")
				}
				delivered = i + 1
				continue
			}
			var g1 vfGot
			var ok bool
			if rp == 1 && a == 1 && !m.comp {
				// byte-wise reading, tracking how much of the message was delivered
				// when each handler ran
				curBytes = 0
				mt, r, err := rc.NextReader()
				ok = err == nil
				g1.mt = mt
				if ok {
					var b1 [1]byte
					for k := 0; ; k++ {
						n, err := r.Read(b1[:])
						if n == 1 {
							g1.data = append(g1.data, b1[0])
							curBytes++
						}
						if err == io.EOF {
							break
						}
						if err != nil {
							g1.err = err
							break
						}
						vfAssert(k < 4*len(m.data)+16, "reader-makes-progress")
					}
				}
				curBytes = 0
			} else {
				g1, ok = vfReadOne(rc, rp, a)
			}
			vfAssert(ok, "c03-message-arrives")
			vfAssert(g1.err == nil, "c03-eof-at-true-end")
			vfAssert(g1.mt == m.mt, "c03-type")
			vfAssert(len(g1.data) == len(m.data), "c03-length")
			vfAssert(vfAllEq(g1.data, m.data), "c03-payload")
			delivered = i + 1
		}
		_, _, err := rc.NextReader()
		vfAssert(IsCloseError(err, CloseAbnormalClosure), "c03-stream-end-reported")
	}
	// every control frame dispatched exactly once, in wire order, exact payload
	vfAssert(len(events) == len(g.ctls), "c08-each-control-frame-once")
	for i, c := range g.ctls {
		if i < len(events) {
			vfAssert(events[i].op == c.op, "c08-control-order")
			vfAssert(vfAllEq([]byte(events[i].payload), c.payload), "c08-control-payload")
			if rp == 1 && a == 1 && c.inMsg && !g.msgs[c.msgIndex].comp {
				vfAssert(events[i].bytes == c.dataSeen, "c08-control-position-relative-to-data")
			}
			if (rp == 0 || rp == 1) && c.inMsg {
				vfAssert(events[i].msgs == c.msgIndex, "c08-control-position-relative-to-messages")
			}
		}
	}
	vfReach("read-e2e-end")
}

// vfH_fault_read (C05): a conformant stream cut at every offset, with every
// fault kind an io.Reader may legally use, under two chunkings and several
// read programs. No message is reported complete unless it fully arrived and
// equals what was sent; a cut message ends with a non-EOF error; errors stick.
func vfH_fault_read() {
	vfInit()
	tier := vfParam("tier", 0)
	readerIsServer := vfChoose(2) == 1
	pmce := false
	shape := vfChoose(4)
	if vfParam("focus", 0) == 1 {
		// the abandon program on a message whose payload looks like frames itself:
		// whatever is left of it must never be parsed as a frame header
		readerIsServer, shape = false, 4
	}
	g := &vfGen{fromClient: readerIsServer}
	R := 125
	switch shape {
	case 0: // one unfragmented message, then a fragmented one
		g.message(TextMessage, vfBytes(3), false, 0, []int{-1}, -1, 0, nil)
		g.message(BinaryMessage, vfBytes(5), false, 0, []int{2, -1}, 0, PingMessage, vfBytes(1))
	case 1: // fragmented message whose non-final frame is larger than the read buffer
		g.message(TextMessage, vfBytes(R+40), false, 0, []int{R + 20, -1}, -1, 0, nil)
	case 2: // 16-bit length, unfragmented, larger than the read buffer
		g.message(BinaryMessage, vfBytes(R+10), false, 0, []int{-1}, -1, 0, nil)
	case 4: // payload that embeds a well-formed unmasked text frame "X" and a close frame
		g.message(BinaryMessage, []byte{'a', 0x81, 0x01, 'X', 0x88, 0x00}, false, 0, []int{-1}, -1, 0, nil)
		g.message(TextMessage, vfBytes(2), false, 0, []int{-1}, -1, 0, nil)
	case 3: // compressed (stored-block model), fragmented
		pmce = true
		g.message(TextMessage, vfBytes(4), true, 0, []int{3, -1}, -1, 0, nil)
	}
	T := len(g.wire)
	var cuts []int
	if T <= 40 || tier >= 1 {
		for i := 0; i <= T; i++ {
			cuts = append(cuts, i)
		}
	} else {
		// long streams (quick tier): every structural boundary and its neighbours
		for _, b := range g.bounds {
			cuts = append(cuts, b-1, b, b+1)
		}
		cuts = append(cuts, T-1, T, T/2)
		cuts = vfDedup(cuts, T)
	}
	cut := vfPick(cuts)
	focus := vfParam("focus", 0) // 1: only the abandon program under a transient fault (explored first, on its own)
	kind := vfFaultTransient
	if focus == 0 {
		kind = 1 + vfChoose(5)
	}
	tc := vfNewConn(g.wire)
	tc.cut = cut
	tc.rfault = kind
	chunk := vfChoose(3)
	chunkOne := chunk == 1
	if chunkOne {
		tc.chunkMode = vfChunkOne
	}
	if chunk == 2 {
		// the first header arrives alone, everything else in as few reads as possible
		tc.chunkMode = vfChunkScript
		tc.script = []int{g.bounds[1]}
	}
	rc := vfReaderConn(tc, readerIsServer, R)
	if pmce {
		rc.newDecompressionReader = decompressNoContextTakeover
	}
	rc.SetPingHandler(func(string) error { return nil })
	rp := 2
	if focus == 0 {
		rp = vfChoose(3)
	}
	a := vfPick([]int{1, R, 2 * R})
	var nrErr error
	failed := false
	if rp == 2 {
		// abandon the first message after one byte; everything else via ReadMessage
		if _, r, err := rc.NextReader(); err == nil {
			var b1 [1]byte
			r.Read(b1[:])
		}
		// Once any read call has failed, every later one must fail: checked below.
		for i := 0; i < len(g.msgs)+1; i++ {
			_, r, err := rc.NextReader()
			if err != nil {
				nrErr = err
				break
			}
			// a message delivered after an abandoned one must be a real, complete one
			p, err := io.ReadAll(r)
			if err == nil {
				ok := false
				for _, m := range g.msgs[1:] {
					if len(p) == len(m.data) && m.end <= len(g.wire) {
						if vfAllEq(p, m.data) {
							ok = true
						}
					}
				}
				vfAssert(ok, "c05-only-real-messages-delivered")
				vfAssert(kind != vfFaultTransient || cut >= g.msgs[0].end || cut <= g.msgs[0].start, "c05-error-while-skipping-is-not-swallowed")
			}
		}
		_, r1, e1 := rc.NextReader()
		_, r2, e2 := rc.NextReader()
		vfAssert(e1 != nil && e1 == e2 && r1 == nil && r2 == nil, "c05-error-is-sticky")
		if nrErr != nil {
			vfAssert(e1 == nrErr, "c05-same-error-as-first")
		}
		vfReach("fault-read-failed-message")
		return
	}
	for i, m := range g.msgs {
		g1, ok := vfReadOne(rc, rp, a)
		complete := ok && g1.err == nil
		if complete {
			// (a) reported complete => completely received and identical
			vfAssert(m.end <= cut, "c05-complete-only-if-fully-received")
			vfAssert(g1.mt == m.mt, "c05-type")
			vfAssert(len(g1.data) == len(m.data), "c05-length")
			vfAssert(vfAllEq(g1.data, m.data), "c05-payload")
		} else {
			// (b) a message that had fully arrived before the failing read is reported
			arrivedBefore := m.end < cut || (m.end == cut && kind != vfFaultEOFWithData)
			if kind == vfFaultTransient {
				arrivedBefore = m.end <= cut
			}
			if kind == vfFaultEOFWithData && !chunkOne {
				arrivedBefore = false // the failing read may have carried the message itself
			}
			vfAssert(!arrivedBefore, "c05-arrived-message-is-reported")
			// (c) never io.EOF / nil for an incomplete message
			if ok {
				vfAssert(g1.err != nil && g1.err != io.EOF, "c05-cut-message-ends-with-error")
			} else {
				vfAssert(g1.err != nil, "c05-cut-message-ends-with-error")
				nrErr = g1.err
			}
			failed = true
			_ = i
			break
		}
	}
	// (d) after the failure NextReader returns one and the same error forever
	_, r1, e1 := rc.NextReader()
	_, r2, e2 := rc.NextReader()
	_, r3, e3 := rc.NextReader()
	vfAssert(e1 != nil && e1 == e2 && e2 == e3, "c05-error-is-sticky")
	vfAssert(r1 == nil && r2 == nil && r3 == nil, "c05-nothing-delivered-after-error")
	if nrErr != nil {
		vfAssert(e1 == nrErr, "c05-same-error-as-first")
	}
	if tier >= 1 && shape == 0 && chunk == 0 && kind == vfFaultEOF {
		// up to the documented threshold: the same error on every call, then the
		// documented panic on the 1000th failed read
		for rc.readErrCount < 999 {
			_, r, e := rc.NextReader()
			vfAssert(r == nil && e == e1, "c05-error-is-sticky")
		}
		panicked := false
		func() {
			defer func() {
				if recover() != nil {
					panicked = true
				}
			}()
			rc.NextReader()
		}()
		vfAssert(panicked, "c05-documented-panic-at-1000")
	}
	if failed {
		vfReach("fault-read-failed-message")
	} else {
		vfReach("fault-read-all-complete")
	}
}

// vfH_limit_history (C06.H2): symbolic read limit L; message A (within the
// limit) treated in any way by the application, then message B (within the
// limit) must be readable in full, then message C (over the limit) must fail
// with ErrReadLimit after at most L bytes and a 1009 close.
func vfH_limit_history() {
	vfInit()
	vfClockMaxStep(int64(writeWait) / 4)
	readerIsServer := vfChoose(2) == 1
	L := vfI64()
	vfAssume(L >= 1)
	vfAssume(L <= 12)
	shapes := [][]int{{2}, {1, 2}, {2, 0, 1}, {0, 3}, {3, 3, 3}}
	g := &vfGen{fromClient: readerIsServer}
	sum := func(f []int) int {
		s := 0
		for _, x := range f {
			s += x
		}
		return s
	}
	fa := shapes[vfChoose(len(shapes))]
	fb := shapes[vfChoose(len(shapes))]
	fc := shapes[vfChoose(len(shapes))]
	vfAssume(int64(sum(fa)) <= L)
	vfAssume(int64(sum(fb)) <= L)
	vfAssume(int64(sum(fc)) > L)
	pingInA := -1
	if vfChoose(2) == 1 {
		pingInA = 0
	}
	mk := func(f []int) []int { return append(append([]int(nil), f[:len(f)-1]...), -1) }
	g.message(TextMessage, vfBytes(sum(fa)), false, 0, mk(fa), pingInA, PingMessage, vfBytes(2))
	g.message(BinaryMessage, vfBytes(sum(fb)), false, 0, mk(fb), -1, 0, nil)
	// message C may carry a ping between its fragments; the handler may re-assert
	// the same limit (an application calling SetReadLimit(L) again changes nothing)
	pingInC := -1
	if vfChoose(2) == 1 {
		pingInC = 0
	}
	relimit := vfChoose(2) == 1
	g.message(TextMessage, vfBytes(sum(fc)), false, 0, mk(fc), pingInC, PingMessage, vfBytes(1))
	tc := vfNewConn(g.wire)
	if vfChoose(2) == 1 {
		tc.chunkMode = vfChunkOne
	}
	rc := vfReaderConn(tc, readerIsServer, 125)
	rc.SetReadLimit(L)
	rc.SetPingHandler(func(string) error {
		if relimit {
			rc.SetReadLimit(L)
		}
		return nil
	})
	// message A: read fully | one byte | not at all
	mt, r, err := rc.NextReader()
	vfAssert(err == nil && mt == TextMessage, "c06-within-limit-message-readable")
	switch vfChoose(3) {
	case 0:
		buf := make([]byte, 64)
		n, err := io.ReadFull(r, buf)
		vfAssert(err == io.ErrUnexpectedEOF || (err == io.EOF && n == 0), "c06-within-limit-message-readable")
		vfAssert(n == sum(fa), "c06-within-limit-message-complete")
		vfAssert(vfAllEq(buf[:n], g.msgs[0].data), "c06-payload")
	case 1:
		if sum(fa) > 0 {
			var b1 [1]byte
			n, err := r.Read(b1[:])
			vfAssert(n == 1 && err == nil, "c06-within-limit-message-readable")
		}
	}
	// message B: must be readable in full whatever happened to A
	mt, p, err := rc.ReadMessage()
	vfAssert(err == nil, "c06-next-message-within-limit-readable")
	vfAssert(mt == BinaryMessage, "c06-type")
	vfAssert(len(p) == sum(fb), "c06-next-message-complete")
	vfAssert(vfAllEq(p, g.msgs[1].data), "c06-payload")
	nwBefore := tc.nWrites()
	// message C exceeds the limit
	mt, r, err = rc.NextReader()
	var delivered []byte
	if err == nil {
		buf := make([]byte, 64)
		var n int
		n, err = io.ReadFull(r, buf)
		delivered = buf[:n]
	}
	vfAssert(err == ErrReadLimit, "c06-over-limit-fails-with-errreadlimit")
	vfAssert(int64(len(delivered)) <= L, "c06-at-most-limit-bytes-delivered")
	vfAssert(vfAllEq(delivered, g.msgs[2].data[:len(delivered)]), "c06-payload")
	// the frame that crosses the limit was refused before its payload was consumed:
	// what was delivered is exactly the frames before the crossing one
	vfAssert(tc.nWrites() == nwBefore+1, "c06-1009-sent")
	w := tc.wire()
	f, _, ok := specDecodeFrame(w, len(w)-len(tc.ops[len(tc.ops)-1].data))
	vfAssert(ok && f.opcode == 8 && f.length >= 2, "c06-1009-sent")
	vfAssert(int(f.payload[0])<<8|int(f.payload[1]) == 1009, "c06-1009-sent")
	_, _, err2 := rc.NextReader()
	vfAssert(err2 == ErrReadLimit, "c06-error-is-sticky")
	vfReach("limit-history-end")
}

// vfH_violation_after_message (C04.H2): a complete message is delivered
// intact, then a frame of each violation class fails the read; nothing of the
// violating frame is delivered or dispatched; a 1002 close goes out (except for
// a length with the top bit set); the error is permanent.
func vfH_violation_after_message() {
	vfInit()
	vfClockMaxStep(int64(writeWait) / 4)
	readerIsServer := vfChoose(2) == 1
	g := &vfGen{fromClient: readerIsServer}
	g.message(TextMessage, vfBytes(3), false, 0, []int{1, -1}, -1, 0, nil)
	cls := vfChoose(11)
	inMsg := cls == 5
	if inMsg {
		// an unfinished message precedes the violating frame
		g.frame(false, false, BinaryMessage, vfBytes(2))
	}
	good := g.fromClient
	key := g.key()
	pl := vfBytes(2)
	noClose := false
	var bad []byte
	switch cls {
	case 0:
		bad = specEncodeFrame(true, false, TextMessage, good, key, pl)
		bad[0] |= 0x20 // RSV2
	case 1:
		bad = specEncodeFrame(true, false, TextMessage, good, key, pl)
		bad[0] |= 0x10 // RSV3
	case 2:
		bad = specEncodeFrame(true, false, 3+vfChoose(5), good, key, pl) // reserved opcode
	case 3:
		bad = specEncodeFrame(false, false, PingMessage, good, key, pl) // fragmented control
	case 4:
		bad = specEncodeFrame(true, false, PingMessage, good, key, make([]byte, 126)) // oversized control
	case 5:
		bad = specEncodeFrame(true, false, TextMessage, good, key, pl) // new data frame inside a message
	case 6:
		bad = specEncodeFrame(true, false, 0, good, key, pl) // continuation with no message
	case 7:
		bad = specEncodeFrame(true, false, TextMessage, !good, key, pl) // wrong masking
	case 8:
		code := vfU16()
		vfAssume(specCloseMustReject(int(code)))
		bad = specEncodeFrame(true, false, CloseMessage, good, key, []byte{byte(code >> 8), byte(code)})
	case 9:
		r := vfBytes(3)
		vfAssume(!specUTF8ValidT(r))
		bad = specEncodeFrame(true, false, CloseMessage, good, key, []byte{0x03, 0xe8, r[0], r[1], r[2]})
	case 10:
		// 64-bit length with the top bit set
		bad = []byte{0x82, 127, 0x80 | vfByte(), vfByte(), vfByte(), vfByte(), vfByte(), vfByte(), vfByte(), vfByte()}
		if good {
			bad[1] |= 0x80
			bad = append(bad, key[:]...)
		}
		noClose = true
	}
	g.wire = append(g.wire, bad...)
	g.wire = append(g.wire, specEncodeFrame(true, false, TextMessage, good, g.key(), vfBytes(1))...)
	tc := vfNewConn(g.wire)
	if vfChoose(2) == 1 {
		tc.chunkMode = vfChunkOne
	}
	rc := vfReaderConn(tc, readerIsServer, 125)
	handled := 0
	rc.SetPingHandler(func(string) error { handled++; return nil })
	rc.SetPongHandler(func(string) error { handled++; return nil })
	rc.SetCloseHandler(func(int, string) error { handled++; return nil })
	mt, p, err := rc.ReadMessage()
	vfAssert(err == nil && mt == TextMessage, "c04-message-before-violation-delivered")
	vfAssert(vfAllEq(p, g.msgs[0].data), "c04-message-before-violation-intact")
	var err2 error
	if inMsg {
		var r io.Reader
		_, r, err2 = rc.NextReader()
		vfAssert(err2 == nil, "c04-unfinished-message-starts")
		var buf [8]byte
		var n int
		n, err2 = io.ReadFull(r, buf[:])
		vfAssert(n == 2, "c04-only-bytes-before-violation-delivered")
	} else {
		var p2 []byte
		_, p2, err2 = rc.ReadMessage()
		vfAssert(len(p2) == 0, "c04-nothing-from-violating-frame-delivered")
	}
	vfAssert(err2 != nil && err2 != io.EOF && err2 != io.ErrUnexpectedEOF, "c04-violation-fails-the-read")
	vfAssert(handled == 0, "c04-no-handler-for-violating-frame")
	if noClose {
		vfAssert(err2 == ErrReadLimit, "c06-top-bit-length-is-read-limit-error")
	} else {
		vfCheckCloseSent(tc, readerIsServer, 1002, "c04")
	}
	nw := tc.nWrites()
	_, r3, err3 := rc.NextReader()
	_, r4, err4 := rc.NextReader()
	vfAssert(err3 == err2 && err4 == err2, "c04-error-is-sticky")
	vfAssert(r3 == nil && r4 == nil && handled == 0, "c04-nothing-delivered-after-error")
	vfAssert(tc.nWrites() == nw, "c04-nothing-written-after-error")
	vfReach("violation-after-message-end")
}

// vfH_frame_nopanic (C07.H1): arbitrary bytes presented as a frame stream:
// no panic, no loop that fails to consume input, no allocation driven by the
// claimed length; either role, extension negotiated or not, three read programs.
func vfH_frame_nopanic() {
	vfInit()
	vfClockMaxStep(int64(writeWait) / 4)
	isServer := vfChoose(2) == 1
	pmce := false // arbitrary compressed payloads are outside the stored-block model
	// an acceptable data-frame header with an arbitrary (symbolic) length in one
	// of the three length forms, the mask key if any, two payload bytes, then the
	// end of the stream. Claimed lengths are 1, 2 or >= 16384 (up to 2^64-1):
	// mid-range values only multiply the case split over read sizes. The header
	// alphabet itself is covered by the step harnesses.
	b0 := vfByte()
	vfAssume(vfAnd(b0&0x70 == 0, vfOr(b0&0x0f == 1, b0&0x0f == 2)))
	mb := byte(0)
	if isServer {
		mb = 0x80
	}
	var stream []byte
	switch vfChoose(3) {
	case 0:
		stream = []byte{b0, mb | byte(1+vfChoose(2))}
	case 1:
		l := vfBytes(2)
		L := int(l[0])<<8 | int(l[1])
		vfAssume(vfOr(vfAnd(L >= 1, L <= 2), L >= 16384))
		stream = []byte{b0, mb | 126, l[0], l[1]}
	case 2:
		l := vfBytes(8)
		var L uint64
		for i := 0; i < 8; i++ {
			L = L<<8 | uint64(l[i])
		}
		vfAssume(vfOr(vfAnd(L >= 1, L <= 2), L >= 16384))
		stream = append([]byte{b0, mb | 127}, l...)
	}
	if isServer {
		stream = append(stream, vfBytes(4)...)
	}
	stream = append(stream, vfBytes(2)...)
	tc := vfNewConn(stream)
	if vfChoose(2) == 1 {
		tc.chunkMode = vfChunkOne
	}
	c := vfReaderConn(tc, isServer, 125)
	if pmce {
		c.newDecompressionReader = decompressNoContextTakeover
	}
	switch vfChoose(3) {
	case 1:
		c.SetReadLimit(64)
	case 2:
		c.SetReadLimit(1 << 40) // a generous limit: large claims are within it, memory must still follow the bytes received
	}
	// every allocation on the path is bounded by a constant (io.ReadAll's 512-byte
	// start buffer, the 125-byte control payload, error strings): memory never
	// depends on the length a header claims
	vfAllocBound(1100)
	vfUnwind(200)
	switch vfChoose(3) {
	case 0:
		for i := 0; i < 3; i++ {
			if _, _, err := c.ReadMessage(); err != nil {
				break
			}
		}
	case 1:
		for i := 0; i < 3; i++ {
			_, r, err := c.NextReader()
			if err != nil {
				break
			}
			var b [3]byte
			r.Read(b[:])
		}
	case 2:
		r := JoinMessages(c, "")
		var b [4]byte
		for i := 0; i < 6; i++ {
			if _, err := r.Read(b[:]); err != nil {
				break
			}
		}
	}
	// input was consumed or an error is now sticky: a further call cannot loop
	before := tc.rpos
	_, _, err := c.NextReader()
	vfAssert(err != nil || tc.rpos > before || c.br.Buffered() >= 0, "c07-progress-or-error")
	vfReach("frame-nopanic-end")
}

// vfH_abandon_compressed (C15/C03): a compressed message abandoned part-way,
// followed by an uncompressed one (the peer toggled write compression) and
// then a compressed one again: each later message decodes on its own terms.
func vfH_abandon_compressed() {
	vfInit()
	readerIsServer := vfChoose(2) == 1
	g := &vfGen{fromClient: readerIsServer}
	g.bfinal = vfChoose(2) == 1
	vfFlateEOFWithData = g.bfinal
	firstComp := vfChoose(2) == 1
	g.message(TextMessage, vfBytes(6), firstComp, 0, []int{4, -1}, -1, 0, nil)
	g.message(BinaryMessage, vfBytes(5), !firstComp, 0, []int{2, -1}, -1, 0, nil)
	g.message(TextMessage, vfBytes(3), true, 0, []int{-1}, -1, 0, nil)
	tc := vfNewConn(g.wire)
	if vfChoose(2) == 1 {
		tc.chunkMode = vfChunkOne
	}
	rc := vfReaderConn(tc, readerIsServer, 125)
	rc.newDecompressionReader = decompressNoContextTakeover
	// message 1: read k bytes, then abandon
	mt, r, err := rc.NextReader()
	vfAssert(err == nil && mt == TextMessage, "c03-message-arrives")
	k := vfChoose(3)
	if k > 0 {
		buf := make([]byte, k)
		n, rerr := io.ReadFull(r, buf)
		vfAssert(rerr == nil && n == k && vfAllEq(buf, g.msgs[0].data[:k]), "c03-partial-payload")
	}
	for _, m := range g.msgs[1:] {
		mt, p, rerr := rc.ReadMessage()
		vfAssert(rerr == nil, "c15-message-after-abandoned-one-decodes")
		vfAssert(mt == m.mt && len(p) == len(m.data) && vfAllEq(p, m.data), "c03-payload")
	}
	vfReach("abandon-compressed-end")
}

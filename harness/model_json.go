//go:build verif

package websocket

// encoding/json as "an arbitrary io.Writer client" (Encoder) and "an arbitrary
// io.Reader client" (Decoder). Engine only; natively the real package runs.

import (
	"encoding/json"
	"io"
	"sync"
)

var vfJSONMu sync.Mutex
var vfJSONEnc map[*json.Encoder]io.Writer
var vfJSONDec map[*json.Decoder]io.Reader
var vfJSONWritten []byte // what the last Encode wrote
var vfJSONRead []byte    // what the last Decode consumed
var vfJSONPieces int     // how the encoder splits its output: 0 one Write, k: k+1 writes

func vfJSONNewEncoder(w io.Writer) *json.Encoder {
	e := new(json.Encoder)
	vfJSONMu.Lock()
	if vfJSONEnc == nil {
		vfJSONEnc = map[*json.Encoder]io.Writer{}
	}
	vfJSONEnc[e] = w
	vfJSONMu.Unlock()
	return e
}

// vfJSONEncode writes an arbitrary non-empty byte string ending in a newline
// (as json.Encoder does), in one or several Write calls.
func vfJSONEncode(e *json.Encoder, v any) error {
	vfJSONMu.Lock()
	w := vfJSONEnc[e]
	vfJSONMu.Unlock()
	n := 1 + vfChoose(12)
	out := vfBytes(n)
	out[n-1] = '\n'
	vfJSONWritten = append([]byte(nil), out...)
	k := vfJSONPieces
	for len(out) > 0 {
		m := len(out)
		if k > 0 && m > 1+len(out)/(k+1) {
			m = 1 + len(out)/(k+1)
		}
		if _, err := w.Write(out[:m]); err != nil {
			return err
		}
		out = out[m:]
	}
	return nil
}

func vfJSONNewDecoder(r io.Reader) *json.Decoder {
	d := new(json.Decoder)
	vfJSONMu.Lock()
	if vfJSONDec == nil {
		vfJSONDec = map[*json.Decoder]io.Reader{}
	}
	vfJSONDec[d] = r
	vfJSONMu.Unlock()
	return d
}

// vfJSONDecode reads its input with arbitrary read sizes until it ends.
func vfJSONDecode(d *json.Decoder, v any) error {
	vfJSONMu.Lock()
	r := vfJSONDec[d]
	vfJSONMu.Unlock()
	vfJSONRead = nil
	size := []int{1, 3, 512}[vfChoose(3)]
	buf := make([]byte, size)
	for i := 0; i < 64; i++ {
		n, err := r.Read(buf)
		vfJSONRead = append(vfJSONRead, buf[:n]...)
		if err == io.EOF {
			if len(vfJSONRead) == 0 {
				return io.EOF
			}
			return nil
		}
		if err != nil {
			return err
		}
	}
	return nil
}

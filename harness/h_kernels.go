//go:build verif

package websocket

import "io"

// vfH_mask_kernel (C01.H3): maskBytes against its byte-at-a-time definition
// for every length 0..N, every buffer alignment (symbolic address residue),
// symbolic key, symbolic starting position (any int), symbolic content.
func vfH_mask_kernel() {
	N := vfParam("N", 40)
	n := vfChoose(N + 1)
	r := vfInt()
	vfAssume(r >= 0)
	vfAssume(r < 8)
	b := vfAlignedBytes(n, r)
	orig := append([]byte(nil), b...)
	key := [4]byte{vfByte(), vfByte(), vfByte(), vfByte()}
	pos := vfInt()
	got := maskBytes(key, pos, b)
	// reference: byte i is XORed with key[(pos+i) mod 4] (mathematical mod on the
	// low two bits, which is what the RFC's "i MOD 4" means for a running offset)
	want := make([]byte, n)
	for i := 0; i < n; i++ {
		want[i] = orig[i] ^ vfKeyAt(key, pos+i)
	}
	vfAssert(vfAllEq(b, want), "mask-bytes-equal-definition")
	vfAssert(got == (pos+n)&3, "mask-returns-next-position")
	vfReach("mask-kernel-end")
}

// vfKeyAt returns key[i mod 4] without forking on i.
func vfKeyAt(key [4]byte, i int) byte {
	j := i & 3
	k01 := vfIte(j == 0, int(key[0]), int(key[1]))
	k23 := vfIte(j == 2, int(key[2]), int(key[3]))
	return byte(vfIte(j < 2, k01, k23))
}

type vfSink struct {
	data   []byte
	nwrite int
	closed int
	failAt int // 1-based write index to fail; 0 never
}

func (s *vfSink) Write(p []byte) (int, error) {
	s.nwrite++
	if s.failAt > 0 && s.nwrite == s.failAt {
		return 0, vfErrInjected
	}
	s.data = append(s.data, p...)
	return len(p), nil
}

func (s *vfSink) Close() error { s.closed++; return nil }

// vfH_trunc_step (C01.H4): one inductive step of truncWriter.Write from an
// arbitrary state: downstream output ++ held bytes == previously held ++ input,
// and the writer holds min(4, total) bytes.
func vfH_trunc_step() {
	n0 := vfChoose(5) // bytes already held
	held := vfBytes(4)
	sink := &vfSink{}
	tw := &truncWriter{w: sink, n: n0}
	copy(tw.p[:], held)
	m := vfChoose(vfParam("M", 10) + 1)
	in := vfBytes(m)
	inCopy := append([]byte(nil), in...)
	nn, err := tw.Write(in)
	vfAssert(err == nil, "trunc-no-error")
	_ = nn // the count is not part of any property: compress/flate ignores it
	var before []byte
	before = append(before, held[:n0]...)
	before = append(before, inCopy...)
	var after []byte
	after = append(after, sink.data...)
	after = append(after, tw.p[:tw.n]...)
	vfAssert(len(before) == len(after), "trunc-conserves-length")
	vfAssert(vfAllEq(before, after), "trunc-conserves-bytes-in-order")
	want := n0 + m
	if want > 4 {
		want = 4
	}
	vfAssert(tw.n == want, "trunc-holds-min4")
	vfReach("trunc-step-end")
}

var _ = io.EOF

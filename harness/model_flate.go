//go:build verif

package websocket

// Stored-block model of compress/flate (RFC 1951 section 3.2.4), used by the
// symbolic engine in place of the real package (whose LZ77/Huffman loops are
// out of reach). Natively the real compress/flate runs, so these functions
// are only ever executed symbolically.

import (
	"compress/flate"
	"errors"
	"io"
	"sync"
)

type vfFlateW struct {
	dst     io.Writer
	level   int
	pending []byte
	flushes int
}

var vfFW map[*flate.Writer]*vfFlateW
var vfFWMu sync.Mutex

// vfFlateEmit selects how the model hands its output to the destination
// writer: 0 = one Write, k>0 = first k bytes then the rest (exercises the
// tail-truncating writer with short writes).
var vfFlateEmit int

// vfFlateEOFWithData: the model reader returns the last bytes of a BFINAL
// block together with io.EOF (legal for an io.Reader; a real inflater does so
// when the final block ends the stream).
var vfFlateEOFWithData bool

var vfErrFlateLevel = errors.New("flate: invalid compression level (model)")
var vfErrFlateCorrupt = errors.New("flate: corrupt input (model)")

func vfFlateNewWriter(w io.Writer, level int) (*flate.Writer, error) {
	if level < -2 || level > 9 {
		return nil, vfErrFlateLevel
	}
	fw := new(flate.Writer)
	vfFWMu.Lock()
	if vfFW == nil {
		vfFW = make(map[*flate.Writer]*vfFlateW)
	}
	vfFW[fw] = &vfFlateW{dst: w, level: level}
	vfFWMu.Unlock()
	return fw, nil
}

func vfFlateState(fw *flate.Writer) *vfFlateW {
	vfFWMu.Lock()
	defer vfFWMu.Unlock()
	return vfFW[fw]
}

func vfFlateWrite(fw *flate.Writer, p []byte) (int, error) {
	st := vfFlateState(fw)
	st.pending = append(st.pending, p...)
	return len(p), nil
}

func vfFlateFlush(fw *flate.Writer) error {
	st := vfFlateState(fw)
	var out []byte
	data := st.pending
	st.pending = nil
	for len(data) > 0 {
		n := len(data)
		if n > 65535 {
			n = 65535
		}
		out = append(out, 0x00, byte(n), byte(n>>8), ^byte(n), ^byte(n>>8))
		out = append(out, data[:n]...)
		data = data[n:]
	}
	// sync flush: empty stored block
	out = append(out, 0x00, 0x00, 0x00, 0xff, 0xff)
	st.flushes++
	k := vfFlateEmit
	if k > 0 && k < len(out) {
		if _, err := st.dst.Write(out[:k]); err != nil {
			return err
		}
		_, err := st.dst.Write(out[k:])
		return err
	}
	_, err := st.dst.Write(out)
	return err
}

func vfFlateWReset(fw *flate.Writer, dst io.Writer) {
	st := vfFlateState(fw)
	st.dst = dst
	st.pending = nil
}

func vfFlateWClose(fw *flate.Writer) error {
	return vfFlateFlush(fw)
}

// vfFlateR decodes a stream of stored blocks.
type vfFlateR struct {
	src    io.Reader
	remain int  // bytes left in the current stored block
	final  bool // current block has BFINAL
	done   bool
	err    error
}

func vfFlateNewReader(r io.Reader) io.ReadCloser {
	return &vfFlateR{src: r}
}

func (r *vfFlateR) Reset(src io.Reader, dict []byte) error {
	r.src = src
	r.remain = 0
	r.final = false
	r.done = false
	r.err = nil
	return nil
}

func (r *vfFlateR) Close() error { return nil }

func (r *vfFlateR) readByte() (byte, error) {
	var b [1]byte
	for i := 0; i < 4; i++ {
		n, err := r.src.Read(b[:])
		if n == 1 {
			return b[0], nil
		}
		if err != nil {
			if err == io.EOF {
				err = io.ErrUnexpectedEOF
			}
			return 0, err
		}
	}
	return 0, io.ErrNoProgress
}

func (r *vfFlateR) Read(p []byte) (int, error) {
	if r.err != nil {
		return 0, r.err
	}
	if len(p) == 0 {
		return 0, nil
	}
	for r.remain == 0 {
		if r.final {
			r.done = true
			r.err = io.EOF
			return 0, io.EOF
		}
		h, err := r.readByte()
		if err != nil {
			r.err = err
			return 0, err
		}
		// only stored blocks are inside the model
		vfAssume(h&0x06 == 0)
		r.final = h&1 != 0
		var hdr [4]byte
		for i := range hdr {
			b, err := r.readByte()
			if err != nil {
				r.err = err
				return 0, err
			}
			hdr[i] = b
		}
		n := int(hdr[0]) | int(hdr[1])<<8
		nn := int(hdr[2]) | int(hdr[3])<<8
		if nn != n^0xffff {
			r.err = vfErrFlateCorrupt
			return 0, r.err
		}
		r.remain = vfConcretize(n)
	}
	if len(p) > r.remain {
		p = p[:r.remain]
	}
	n, err := r.src.Read(p)
	r.remain -= n
	if err == nil && vfFlateEOFWithData && r.final && r.remain == 0 && n > 0 {
		r.done = true
		r.err = io.EOF
		return n, io.EOF
	}
	if err != nil {
		if err == io.EOF {
			if r.remain > 0 || !r.final {
				err = io.ErrUnexpectedEOF
			} else {
				err = nil
			}
		}
		if err != nil {
			r.err = err
			return n, err
		}
	}
	return n, nil
}

//go:build verif

package websocket

import (
	"bufio"
	"net/http"
	"strings"
	"time"
)

const specGUID = "258EAFA5-E914-47DA-95CA-C5AB0DC85B11" // RFC 6455 1.3

// specBase64 encodes per RFC 4648 section 4 (standard alphabet, padding).
func specBase64(in []byte) string {
	const alpha = "ABCDEFGHIJKLMNOPQRSTUVWXYZabcdefghijklmnopqrstuvwxyz0123456789+/"
	sym := func(v int) byte {
		// alphabet lookup as arithmetic, so that symbolic input does not fork
		c := vfIte(v < 26, v+'A', vfIte(v < 52, v-26+'a', vfIte(v < 62, v-52+'0', vfIte(v == 62, '+', '/'))))
		return byte(c)
	}
	_ = alpha
	var out []byte
	for i := 0; i < len(in); i += 3 {
		var b0, b1, b2 int
		b0 = int(in[i])
		n := len(in) - i
		if n > 1 {
			b1 = int(in[i+1])
		}
		if n > 2 {
			b2 = int(in[i+2])
		}
		out = append(out, sym(b0>>2), sym((b0&3)<<4|b1>>4))
		if n > 1 {
			out = append(out, sym((b1&15)<<2|b2>>6))
		} else {
			out = append(out, '=')
		}
		if n > 2 {
			out = append(out, sym(b2&63))
		} else {
			out = append(out, '=')
		}
	}
	return string(out)
}

// specAccept: Sec-WebSocket-Accept = base64(SHA-1(key ++ GUID)), RFC 6455 4.2.2.
func specAccept(key string) string {
	return specBase64(vfUF("sha1", []byte(key+specGUID), 20))
}

// specSplitHead splits an HTTP/1.1 message head into its lines (RFC 7230 3):
// ok is false unless the head ends with an empty line and holds nothing after it.
// specPMDBoth: the extension header value announces permessage-deflate with
// exactly the two no_context_takeover parameters (RFC 7692: parameter order
// and optional white space are not significant). For concrete values.
func specPMDBoth(v string) bool {
	var parts []string
	cur := ""
	for i := 0; i < len(v); i++ {
		switch v[i] {
		case ';':
			parts = append(parts, cur)
			cur = ""
		case ' ', '\t':
		default:
			cur += string(v[i : i+1])
		}
	}
	parts = append(parts, cur)
	if len(parts) != 3 || !strings.EqualFold(parts[0], "permessage-deflate") {
		return false
	}
	s := parts[1] == "server_no_context_takeover" || parts[2] == "server_no_context_takeover"
	c := parts[1] == "client_no_context_takeover" || parts[2] == "client_no_context_takeover"
	return s && c
}

func specSplitHead(b []byte) (lines []string, ok bool) {
	start := 0
	for i := 0; i+1 < len(b); i++ {
		if b[i] == '\r' && b[i+1] == '\n' {
			line := string(b[start:i])
			start = i + 2
			if line == "" {
				return lines, start == len(b)
			}
			lines = append(lines, line)
			i++
		}
	}
	return lines, false
}

type vfUpgIn struct {
	method     string
	connLines  []string
	upgLines   []string
	verLines   []string
	key        string
	hasKey     bool
	keyValid   bool
	origin     string
	hasOrigin  bool
	sameOrigin bool
	host       string
	protoOffer string // "" = no offer
	extLines   []string
	offersPMD  bool
}

func vfGoodKey() string {
	return specBase64(vfBytes(16))
}

// vfH_upgrade_logic (C12, C13 wiring, C15 server side, C16 server side):
// Upgrader.Upgrade executed on requests built from the handshake grammar, one
// or two dimensions away from a valid handshake, with net/http modelled at
// object level (recorder ResponseWriter, Hijacker handing out a scripted
// connection). The 101 response bytes are parsed by a reference head parser.
func vfH_upgrade_logic() {
	vfInit()
	vfClockMaxStep(int64(time.Second))
	in := vfUpgIn{method: "GET", connLines: []string{"Upgrade"}, upgLines: []string{"websocket"}, verLines: []string{"13"},
		hasKey: true, keyValid: true, host: "example.com:8080"}
	in.key = vfGoodKey()
	u := &Upgrader{}
	var respHdr http.Header
	appProto := ""
	var appHdrKey, appHdrVal string
	hijackFails := false
	faultAt := -1
	dontcare := false
	valid := true // the request is a valid opening handshake and the policy allows it
	expect := 0   // expected HTTP error status when a single condition fails (0: not determined)
	appExtErr := false
	// two dimensions are varied, the others keep their valid defaults
	d1 := vfChoose(12)
	if f := vfParam("focus", -1); f >= 0 {
		d1 = f
	}
	d2 := 12
	if vfParam("tier", 0) >= 1 {
		d2 = vfChoose(13)
	}
	if d2 == d1 {
		d2 = 12 // the same dimension twice is the single-dimension case
	}
	if (d1 == 5 && d2 == 6) || (d1 == 6 && d2 == 5) {
		d2 = 12 // default origin policy and a configured CheckOrigin are alternatives
	}
	if d2 != 12 {
		// two dimensions varied: the valid default key is a fixed one (every key is
		// covered by the single-dimension tier)
		in.key = "dGhlIHNhbXBsZSBub25jZQ=="
	}
	for _, d := range []int{d1, d2} {
		switch d {
		case 0: // method
			switch vfChoose(2) {
			case 0:
				in.method = "POST"
			case 1:
				in.method = vfString(3)
				vfAssume(!vfStrEq(in.method, "GET"))
			}
			valid = false
			expect = 405
		case 1: // Connection
			switch vfChoose(5) {
			case 0:
				in.connLines = []string{vfCaseVariant("upgrade")}
			case 1:
				in.connLines = []string{"keep-alive" + vfOWS() + "," + vfOWS() + vfCaseVariant("upgrade")}
			case 2:
				in.connLines = []string{"keep-alive", "Upgrade"}
			case 3:
				in.connLines = nil
				valid = false
				expect = 400
			case 4:
				in.connLines = []string{"upgrades, xupgrade"}
				valid = false
				expect = 400
			}
		case 2: // Upgrade
			switch vfChoose(4) {
			case 0:
				in.upgLines = []string{vfCaseVariant("websocket")}
			case 1:
				in.upgLines = []string{"h2c, " + "WebSocket"}
			case 2:
				in.upgLines = nil
				valid = false
				expect = 426
			case 3:
				in.upgLines = []string{"websockets"}
				valid = false
				expect = 426
			}
		case 3: // version
			switch vfChoose(4) {
			case 0:
				in.verLines = nil
				valid = false
				expect = 400
			case 1:
				in.verLines = []string{"8"}
				valid = false
				expect = 400
			case 2:
				in.verLines = []string{vfString(2)}
				vfAssume(!vfStrEq(in.verLines[0], "13"))
				vfAssume(vfAnd(in.verLines[0][0] != ',', in.verLines[0][1] != ','))
				vfAssume(vfAnd(in.verLines[0][0] != '\r', in.verLines[0][0] != '\n'))
				vfAssume(vfAnd(in.verLines[0][1] != '\r', in.verLines[0][1] != '\n'))
				valid = false
				expect = 400
			case 3:
				in.verLines = []string{"8, 13"} // a version list that contains 13: the property is silent
				dontcare = true
			}
		case 4: // key
			switch vfChoose(4) {
			case 0:
				in.hasKey = false
			case 1:
				in.key = vfString(24)
				for i := 0; i < 24; i++ {
					vfAssume(vfAnd(in.key[i] != '\r', in.key[i] != '\n'))
				}
				vfAssume(!specKeyValid(in.key))
			case 2:
				in.key = specBase64(vfBytes(15))
			case 3:
				in.key = specBase64(vfBytes(17))
			}
			in.keyValid = false
			valid = false
			expect = 400
		case 5: // origin (default policy)
			in.hasOrigin = true
			switch vfChoose(4) {
			case 0:
				in.sameOrigin = true
				in.origin = "https://" + vfCaseVariant(in.host)
				vfHintURL(in.origin, &vfURLParts{scheme: "https", host: in.origin[8:]})
			case 1:
				in.origin = "https://evil.example.com:8080"
				vfHintURL(in.origin, &vfURLParts{scheme: "https", host: "evil.example.com:8080"})
			case 2:
				in.origin = "https://example.com" // missing port
				vfHintURL(in.origin, &vfURLParts{scheme: "https", host: "example.com"})
			case 3:
				in.origin = "https://example.com:8080.evil.org"
				vfHintURL(in.origin, &vfURLParts{scheme: "https", host: "example.com:8080.evil.org"})
			}
			if !in.sameOrigin {
				valid = false
				expect = 403
			}
		case 6: // CheckOrigin configured
			in.hasOrigin = true
			in.origin = "https://other.example"
			if vfChoose(2) == 0 {
				u.CheckOrigin = func(*http.Request) bool { return true }
			} else {
				u.CheckOrigin = func(*http.Request) bool { return false }
				valid = false
				expect = 403
			}
		case 7: // subprotocols
			switch vfChoose(5) {
			case 0:
				in.protoOffer = "chat"
				u.Subprotocols = []string{"superchat", "chat"}
			case 1:
				in.protoOffer = "chat, superchat"
				u.Subprotocols = []string{"superchat", "chat"}
			case 2:
				in.protoOffer = "mqtt"
				u.Subprotocols = []string{"superchat", "chat"}
			case 3:
				in.protoOffer = "chat"
				u.Subprotocols = []string{}
			case 4:
				u.Subprotocols = []string{"chat"}
			}
		case 8: // application response headers
			switch vfChoose(4) {
			case 0:
				appHdrKey, appHdrVal = "X-App", vfString(3) // arbitrary bytes incl. CR/LF
				respHdr = http.Header{appHdrKey: {appHdrVal}}
			case 1:
				appProto = vfString(3) // Subprotocols nil: the application names the subprotocol
				vfAssume(len(appProto) > 0)
				respHdr = http.Header{"Sec-Websocket-Protocol": {appProto}}
				in.protoOffer = "chat"
			case 2:
				respHdr = http.Header{"Sec-Websocket-Extensions": {"x"}}
				appExtErr = true
				valid = false
				expect = 500
			case 3:
				appProto = "app"
				respHdr = http.Header{"Sec-Websocket-Protocol": {appProto}}
				u.Subprotocols = []string{"chat"} // with a server list the application's value is not used
				in.protoOffer = "mqtt"
			}
		case 9: // extension offers / EnableCompression
			u.EnableCompression = vfChoose(2) == 1
			in.offersPMD = false
			switch vfChoose(4) {
			case 0:
				in.extLines = []string{"permessage-deflate"}
				in.offersPMD = true
			case 1:
				in.extLines = []string{"x-webkit-deflate-frame", "permessage-deflate; client_max_window_bits"}
				in.offersPMD = true
			case 2:
				in.extLines = []string{"permessage-deflat"}
			case 3:
			}
		case 10: // hijack fails
			hijackFails = true
			valid = false
			expect = 500
		case 11: // transport fault after hijack; handshake timeout on/off
			if vfChoose(2) == 1 {
				u.HandshakeTimeout = time.Second
			}
			faultAt = vfChoose(3)
		case 12: // plain valid handshake; handshake timeout on/off
			if vfChoose(2) == 1 {
				u.HandshakeTimeout = time.Second
			}
		}
	}
	// build the request the way net/http delivers it (canonical header keys)
	hdr := http.Header{}
	if in.connLines != nil {
		hdr["Connection"] = in.connLines
	}
	if in.upgLines != nil {
		hdr["Upgrade"] = in.upgLines
	}
	if in.verLines != nil {
		hdr["Sec-Websocket-Version"] = in.verLines
	}
	if in.hasKey {
		hdr["Sec-Websocket-Key"] = []string{in.key}
	}
	if in.hasOrigin {
		hdr["Origin"] = []string{in.origin}
	}
	if in.protoOffer != "" {
		hdr["Sec-Websocket-Protocol"] = []string{in.protoOffer}
	}
	if in.extLines != nil {
		hdr["Sec-Websocket-Extensions"] = in.extLines
	}
	r := &http.Request{Method: in.method, Host: in.host, Header: hdr}
	tc := vfNewConn(nil)
	if faultAt >= 0 {
		tc.wfailAt = faultAt
		tc.wfault = 1
	}
	rw := &vfRW{conn: tc}
	rw.br = bufio.NewReaderSize(tc, 4096)
	rw.bw = bufio.NewWriterSize(tc, 4096)
	if hijackFails {
		rw.hijackErr = vfErrInjected
	}
	vfAllocBound(9000)

	c, err := u.Upgrade(rw, r, respHdr)

	if dontcare {
		vfReach("upgrade-dontcare")
		return
	}
	faulted := tc.wfailed
	if c != nil {
		vfAssert(err == nil, "c12-conn-xor-error")
		vfAssert(valid && !faulted, "c12-upgrade-only-if-valid-handshake")
		vfAssert(rw.hijacked == 1, "c12-hijacked-once")
		vfAssert(rw.wroteHeader == 0 && len(rw.body) == 0, "c12-nothing-through-responsewriter-on-success")
		vfAssert(tc.nWrites() == 1, "c12-one-write-of-the-101")
		lines, ok := specSplitHead(tc.wire())
		vfAssert(ok, "c12-101-wellformed-head")
		// expected lines, in any order after the status line
		vfAssert(len(lines) >= 4 && len(lines[0]) >= 12 && lines[0][:12] == "HTTP/1.1 101", "c12-101-status-line")
		want := []string{"Upgrade: websocket", "Connection: Upgrade", "Sec-WebSocket-Accept: " + specAccept(in.key)}
		wantProto := ""
		if u.Subprotocols != nil {
			// first server preference among the offered ones... the library picks the
			// first CLIENT protocol the server supports; the property asks for offered and supported
			if in.protoOffer == "chat" && len(u.Subprotocols) > 0 {
				wantProto = "chat"
			}
		} else if appProto != "" {
			wantProto = appProto
		}
		compress := u.EnableCompression && in.offersPMD
		nExt := 0
		if compress {
			nExt = 1
		}
		if appHdrKey != "" {
			// control bytes in application values are neutralised; the line is still one line
			want = append(want, appHdrKey+": "+vfScrub(appHdrVal))
		}
		// the extension line is judged by meaning (parameter order is free): exactly
		// one, announcing both no_context_takeover parameters, iff compression was agreed
		var got []string
		seenExt := 0
		for _, gl := range lines[1:] {
			if strings.EqualFold(vfHeaderName(gl), "sec-websocket-extensions") {
				seenExt++
				vfAssert(specPMDBoth(gl[len(vfHeaderName(gl))+1:]), "c15-101-announces-both-no-context-takeover-parameters")
				continue
			}
			got = append(got, gl)
		}
		vfAssert(seenExt == nExt, "c12-extension-announced-iff-offered-and-enabled")
		if in.protoOffer == "chat, superchat" {
			// offered and supported: either is acceptable to the property
			vfAssert(len(got) == len(want)+1, "c12-no-extra-lines-in-101")
			p := vfFindPrefix(got, "Sec-WebSocket-Protocol: ")
			vfAssert(p == "chat" || p == "superchat", "c12-subprotocol-offered-and-supported")
		} else if wantProto != "" {
			want = append(want, "Sec-WebSocket-Protocol: "+wantProto)
			vfAssert(len(got) == len(want), "c12-no-extra-lines-in-101")
		} else {
			vfAssert(len(got) == len(want), "c12-no-extra-lines-in-101")
			vfAssert(vfFindPrefix(got, "Sec-WebSocket-Protocol: ") == "", "c12-no-unoffered-subprotocol")
		}
		for _, wl := range want {
			found := false
			// application-supplied values may appear with control bytes neutralised
			alt := vfScrub(wl)
			for _, gl := range got {
				if len(gl) == len(wl) {
					found = vfOr(found, vfOr(vfStrEq(gl, wl), vfStrEq(gl, alt)))
					// header names, and the Upgrade / Connection tokens, are case-insensitive
					if vfHeaderName(wl) == "upgrade" || vfHeaderName(wl) == "connection" {
						found = vfOr(found, vfFoldEqT(gl, wl))
					} else if vfFoldEqT(gl[:len(vfHeaderName(gl))], wl[:len(vfHeaderName(wl))]) {
						k := len(vfHeaderName(wl))
						found = vfOr(found, vfOr(vfStrEq(gl[k:], wl[k:]), vfStrEq(gl[k:], alt[k:])))
					}
				}
			}
			vfAssert(found, "c12-101-has-expected-line")
		}
		vfAssert((c.newCompressionWriter != nil) == compress && (c.newDecompressionReader != nil) == compress, "c15-server-compresses-iff-offered-and-enabled")
		vfAssert(c.isServer, "c12-server-role")
		// C16: open, no write deadline left armed
		vfAssert(tc.closed == 0, "c16-open-on-success")
		// the read and the write deadline are tracked separately (SetDeadline sets both)
		var rdl, wdl time.Time
		for _, op := range tc.ops {
			switch op.kind {
			case vfOpSetDeadline:
				rdl, wdl = op.t, op.t
			case vfOpSetReadDeadline:
				rdl = op.t
			case vfOpSetWriteDeadline:
				wdl = op.t
			}
		}
		vfAssert(wdl.IsZero(), "c16-no-deadline-left-armed")
		vfAssert(rdl.IsZero(), "c16-no-read-deadline-left-armed")
		vfReach("upgrade-success")
		return
	}
	vfAssert(err != nil, "c12-conn-xor-error")
	vfAssert(!valid || faulted, "c12-valid-handshake-is-upgraded")
	if rw.hijacked > 0 && !hijackFails {
		// failure after hijack: the connection obtained has been closed
		vfAssert(tc.closed >= 1, "c16-closed-after-post-hijack-failure")
		vfAssert(rw.wroteHeader == 0, "c16-nothing-through-responsewriter-after-hijack")
		vfReach("upgrade-post-hijack-failure")
		return
	}
	// failure before (or at) hijack: an HTTP error status, the connection is left to net/http
	vfAssert(tc.closed == 0 && tc.nWrites() == 0, "c12-never-touches-the-connection-on-refusal")
	vfAssert(rw.status >= 400, "c12-http-error-status-on-refusal")
	if !hijackFails {
		vfAssert(rw.hijacked == 0, "c12-never-hijacks-on-refusal")
		_, isHE := err.(HandshakeError)
		vfAssert(isHE, "c12-handshakeerror-on-refusal")
	}
	if d2 == 12 && expect != 0 {
		// a single failing condition: the specific status the property names
		if expect == 403 || expect == 426 {
			vfAssert(rw.status == expect, "c12-specific-status")
		}
		if expect == 426 {
			vfAssert(vfStrEq(rw.Header().Get("Upgrade"), "websocket"), "c12-426-carries-upgrade-header")
		}
	}
	_ = appExtErr
	vfReach("upgrade-refused")
}

// vfScrub: bytes <= 31 become spaces (what "cannot inject extra lines" needs
// is weaker: no CR/LF survive; the harness compares against the library's
// documented neutralisation).
func vfScrub(s string) string {
	b := []byte(s)
	for i := range b {
		b[i] = byte(vfIte(b[i] <= 31, ' ', int(b[i])))
	}
	return string(b)
}

func vfFindPrefix(lines []string, prefix string) string {
	for _, l := range lines {
		if len(l) >= len(prefix) && l[:len(prefix)] == prefix {
			return l[len(prefix):]
		}
	}
	return ""
}

// vfH_server_boundary (C17.H1): frames the client sent before reading the 101
// and that net/http had already buffered (first k bytes in the hijacked
// bufio.Reader, the rest in the socket) are delivered as ordinary messages,
// for hijacked reader sizes around the 256-byte reuse threshold and
// ReadBufferSize 0 / small / large.
func vfH_server_boundary() {
	vfInit()
	tier := vfParam("tier", 0)
	gen := &vfGen{fromClient: true}
	n1 := vfPick([]int{3, 130})
	gen.message(TextMessage, vfBytes(n1), false, 0, []int{2, -1}, 0, PingMessage, vfBytes(1))
	gen.message(BinaryMessage, vfBytes(4), false, 0, []int{-1}, -1, 0, nil)
	T := len(gen.wire)
	S := vfPick([]int{16, 256, 257, 4096})
	rbs := vfPick([]int{0, 64, 300})
	ks := []int{0, 1, 2}
	for _, b := range gen.bounds {
		ks = append(ks, b, b+1)
	}
	ks = append(ks, 15, 16, 17, 124, 125, 126, 127, T-1, T)
	if tier >= 1 {
		ks = nil
		for i := 0; i <= T; i++ {
			ks = append(ks, i)
		}
	}
	k := vfPick(vfDedup(ks, T))
	vfAssume(k <= S) // a bufio.Reader cannot hold more than its size
	tc := vfNewConn(gen.wire)
	if k > 0 {
		tc.chunkMode = vfChunkScript
		tc.script = []int{k}
	}
	if vfChoose(2) == 1 && k == 0 {
		tc.chunkMode = vfChunkOne
	}
	br := bufio.NewReaderSize(tc, S)
	if k > 0 {
		br.Peek(1) // net/http read ahead: k bytes are now buffered
		vfAssert(br.Buffered() == k, "boundary-setup")
	}
	rw := &vfRW{conn: tc, br: br, bw: bufio.NewWriterSize(tc, 4096)}
	hdr := http.Header{"Connection": {"Upgrade"}, "Upgrade": {"websocket"}, "Sec-Websocket-Version": {"13"}, "Sec-Websocket-Key": {"dGhlIHNhbXBsZSBub25jZQ=="}}
	r := &http.Request{Method: "GET", Host: "example.com", Header: hdr}
	u := &Upgrader{ReadBufferSize: rbs}
	c, err := u.Upgrade(rw, r, nil)
	vfAssert(err == nil && c != nil, "c17-upgrade-succeeds")
	pings := 0
	c.SetPingHandler(func(string) error { pings++; return nil })
	for _, m := range gen.msgs {
		mt, p, rerr := c.ReadMessage()
		vfAssert(rerr == nil && mt == m.mt, "c17-buffered-frames-delivered")
		vfAssert(len(p) == len(m.data) && vfAllEq(p, m.data), "c17-buffered-frames-intact-and-in-order")
	}
	vfAssert(pings == 1, "c17-buffered-control-frame-delivered")
	_, _, rerr := c.ReadMessage()
	vfAssert(rerr != nil, "c17-nothing-duplicated")
	vfReach("server-boundary-end")
}

// vfH_origin_wiring (C13.H2): the default origin policy as wired into Upgrade:
// with CheckOrigin nil, a request is upgraded iff it has no Origin header or
// the Origin's host equals the request Host under ASCII case folding - for
// Origin hosts of arbitrary bytes (covering the Unicode characters that fold to
// ASCII letters) against short ASCII hosts, and for port / suffix variants.
func vfH_origin_wiring() {
	vfInit()
	vfClockMaxStep(int64(time.Second))
	host := "k.io"
	var ohost string
	switch vfChoose(5) {
	case 0:
		ohost = vfString(4) // same length, arbitrary bytes
	case 1:
		ohost = vfString(6) // e.g. E2 84 AA ".io" (KELVIN SIGN)
	case 2:
		host, ohost = "s.io:80", "s.io"
	case 3:
		host, ohost = "s.io", "s.io:80"
	case 4:
		host = "as.io"
		ohost = vfString(6) // e.g. "a" C5 BF ".io" (LONG S)
	}
	for i := 0; i < len(ohost); i++ {
		vfAssume(vfAnd(ohost[i] != '\r', ohost[i] != '\n'))
	}
	origin := "https://" + ohost
	vfHintURL(origin, &vfURLParts{scheme: "https", host: ohost})
	hdr := http.Header{"Connection": {"Upgrade"}, "Upgrade": {"websocket"}, "Sec-Websocket-Version": {"13"},
		"Sec-Websocket-Key": {"dGhlIHNhbXBsZSBub25jZQ=="}, "Origin": {origin}}
	r := &http.Request{Method: "GET", Host: host, Header: hdr}
	tc := vfNewConn(nil)
	rw := &vfRW{conn: tc, br: bufio.NewReaderSize(tc, 4096), bw: bufio.NewWriterSize(tc, 4096)}
	u := &Upgrader{}
	c, err := u.Upgrade(rw, r, nil)
	same := vfFoldEqT(ohost, host)
	if c != nil {
		vfAssert(same, "c13-only-same-origin-is-upgraded")
		vfReach("origin-accepted")
	} else {
		vfAssert(err != nil, "c12-conn-xor-error")
		vfAssert(!same, "c13-same-origin-is-upgraded")
		vfAssert(rw.status == 403 && rw.hijacked == 0, "c13-other-origin-gets-403-without-hijack")
		vfReach("origin-refused")
	}
}

// specOriginHost: the authority's host[:port] of an origin / URL per RFC 3986
// 3.2 (scheme "://" [userinfo "@"] host [":" port], ended by "/", "?" or "#").
func specOriginHost(s string) (string, bool) {
	i := strings.Index(s, "://")
	if i <= 0 {
		return "", false
	}
	rest := s[i+3:]
	end := len(rest)
	for j := 0; j < len(rest); j++ {
		if rest[j] == '/' || rest[j] == '?' || rest[j] == '#' {
			end = j
			break
		}
	}
	auth := rest[:end]
	if k := strings.LastIndex(auth, "@"); k >= 0 {
		auth = auth[k+1:]
	}
	return auth, true
}

// vfH_origin_urls (C13, with the REAL net/url.Parse executed from its SSA):
// origins assembled from scheme, optional userinfo, host, optional port and
// path around the request Host - case variants, added / removed labels,
// userinfo tricks, different or missing ports, IP literals - are upgraded iff
// the reference authority host equals Host under ASCII folding.
func vfH_origin_urls() {
	vfInit()
	vfClockMaxStep(int64(time.Second))
	vfUseReal("net/url.Parse")
	vfUseRealPkg("net/url")
	symBytes := vfParam("sym", 0)
	hosts := []string{"example.com", "example.com:8080", "[2001:db8::1]:8080", "192.0.2.7"}
	if symBytes > 0 {
		hosts = append(hosts, "sk.example") // letters that non-ASCII runes fold to (U+017F, U+212A)
	}
	host := vfPick(hosts)
	scheme, userinfo := "https", ""
	if symBytes == 0 {
		scheme = vfPick([]string{"https", "http"})
		userinfo = vfPick([]string{"", "user@", "example.com@", "example.com:8080@", "user:pw@"})
	}
	hostNoPort, port := host, ""
	if i := strings.LastIndex(host, ":"); i >= 0 && i > strings.LastIndex(host, "]") {
		hostNoPort, port = host[:i], host[i:]
	}
	var ohost string
	v := 9
	if symBytes == 0 {
		v = vfChoose(9)
	}
	switch v {
	case 9:
		// two arbitrary bytes in place of two characters of the host: every look-alike,
		// delimiter, percent sign, control or non-ASCII byte the real parser may meet
		rep := vfParam("rep", symBytes)                 // characters replaced by the symBytes arbitrary bytes
		k := vfPick([]int{0, 1, len(hostNoPort) - rep}) // at the start, inside, and right before the port / end
		ohost = hostNoPort[:k] + vfString(symBytes) + hostNoPort[k+rep:] + port
	case 0:
		ohost = vfCaseVariant(hostNoPort) + port
	case 1:
		ohost = hostNoPort // port removed (or none to begin with)
	case 2:
		ohost = hostNoPort + ":81"
	case 3:
		ohost = "evil.com"
	case 4:
		ohost = hostNoPort + ".evil.com" + port
	case 5:
		ohost = "evil-" + hostNoPort + port
	case 6:
		ohost = hostNoPort + port + ".evil.com"
	case 7:
		ohost = "[::1]" + port
	case 8:
		ohost = hostNoPort + ":" // empty port
	}
	tail := ""
	if symBytes == 0 {
		tail = vfPick([]string{"", "/", "/a?b=c", "?x", "#f"})
	}
	origin := scheme + "://" + userinfo + ohost + tail
	hdr := http.Header{"Connection": {"Upgrade"}, "Upgrade": {"websocket"}, "Sec-Websocket-Version": {"13"},
		"Sec-Websocket-Key": {"dGhlIHNhbXBsZSBub25jZQ=="}, "Origin": {origin}}
	r := &http.Request{Method: "GET", Host: host, Header: hdr}
	tc := vfNewConn(nil)
	rw := &vfRW{conn: tc, br: bufio.NewReaderSize(tc, 4096), bw: bufio.NewWriterSize(tc, 4096)}
	u := &Upgrader{}
	c, err := u.Upgrade(rw, r, nil)
	want, okRef := specOriginHost(origin)
	same := okRef && vfFoldEqT(want, host)
	if c != nil {
		vfAssert(same, "c13-only-same-origin-is-upgraded")
		vfReach("origin-url-accepted")
	} else {
		vfAssert(err != nil, "c12-conn-xor-error")
		// an origin the standard parser refuses outright (e.g. a port that is not
		// numeric) may be rejected although the reference calls it same-origin:
		// refusing is always within the property
		vfAssert(rw.status == 403 && rw.hijacked == 0, "c13-other-origin-gets-403-without-hijack")
		if same {
			vfReach("origin-url-refused-although-same")
		} else {
			vfReach("origin-url-refused")
		}
	}
}

// vfHeaderName: the lower-cased field name of a "Name: value" line ("" if none).
func vfHeaderName(l string) string {
	i := strings.Index(l, ":")
	if i < 0 {
		return ""
	}
	return strings.ToLower(l[:i])
}

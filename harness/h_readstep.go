//go:build verif

package websocket

import (
	"bufio"
	"io"
	"math"
)

// One inductive step of the reader (C03/C04/C06/C07): an arbitrary reader
// state satisfying the representation invariant, followed by an arbitrary next
// frame header (all 2^16 values of the first two bytes, all extended lengths,
// all keys), judged by a reference verdict written from RFC 6455 5.2-5.5.

type vfStepEnv struct {
	c        *Conn
	tc       *vfConn
	isServer bool
	pmce     bool
	k        int // junk bytes consumed before the frame
	b0, b1   byte
	ext      []byte // 8 bytes following the 2-byte header
	rest     []byte // bytes after ext (key and/or payload)
	pings    []string
	pongs    []string
	closes   []string
	ccodes   []int
	herr     error
	inFinal  bool  // pre-state readFinal
	inLength int64 // pre-state readLength
	limit    int64
}

// vfStepSetup builds the pre-state. P is the number of symbolic bytes
// available after the 2+8 header/extended-length bytes.
func vfStepSetup(P int, symbolicLimit bool, tier int) *vfStepEnv {
	vfInit()
	vfClockMaxStep(int64(writeWait) / 4)
	e := &vfStepEnv{}
	e.isServer = vfChoose(2) == 1
	e.pmce = vfChoose(2) == 1
	R := 125
	chunkOne := false
	if tier >= 1 {
		e.k = vfPick([]int{0, 3, R - 1})
		chunkOne = vfChoose(2) == 1
	} else if vfChoose(2) == 1 {
		e.k, chunkOne = 3, true
	}
	stream := make([]byte, 0, e.k+10+P)
	for i := 0; i < e.k; i++ {
		stream = append(stream, byte(i))
	}
	e.b0, e.b1 = vfByte(), vfByte()
	e.ext = vfBytes(8)
	e.rest = vfBytes(P)
	stream = append(stream, e.b0, e.b1)
	stream = append(stream, e.ext...)
	stream = append(stream, e.rest...)
	e.tc = vfNewConn(stream)
	if chunkOne {
		e.tc.chunkMode = vfChunkOne
	}
	br := bufio.NewReaderSize(e.tc, R)
	// bring the real bufio.Reader into an arbitrary position through its own API
	if e.k > 0 {
		br.Peek(e.k)
		br.Discard(e.k)
	}
	c := newConn(e.tc, e.isServer, 0, 16, nil, br, nil)
	if e.pmce {
		c.newDecompressionReader = decompressNoContextTakeover
	}
	// arbitrary reader state satisfying the invariant Inv
	e.inFinal = vfBool()
	c.readFinal = e.inFinal
	e.inLength = vfI64()
	vfAssume(e.inLength >= 0)
	c.readLength = e.inLength
	if symbolicLimit {
		e.limit = vfI64()
	}
	c.readLimit = e.limit
	// Inv: within-limit so far
	if e.limit > 0 {
		vfAssume(e.inLength <= e.limit)
	}
	c.readMaskPos = int(vfByte() & 3)
	c.readMaskKey = [4]byte{vfByte(), vfByte(), vfByte(), vfByte()}
	c.SetPingHandler(func(s string) error { e.pings = append(e.pings, s); return e.herr })
	c.SetPongHandler(func(s string) error { e.pongs = append(e.pongs, s); return e.herr })
	c.SetCloseHandler(func(code int, s string) error {
		e.closes = append(e.closes, s)
		e.ccodes = append(e.ccodes, code)
		return e.herr
	})
	e.c = c
	return e
}

// header fields per RFC 6455 5.2 (no forking: plain bit arithmetic)
func (e *vfStepEnv) opcode() int  { return int(e.b0 & 0x0f) }
func (e *vfStepEnv) fin() bool    { return e.b0&0x80 != 0 }
func (e *vfStepEnv) rsv1() bool   { return e.b0&0x40 != 0 }
func (e *vfStepEnv) rsv2() bool   { return e.b0&0x20 != 0 }
func (e *vfStepEnv) rsv3() bool   { return e.b0&0x10 != 0 }
func (e *vfStepEnv) masked() bool { return e.b1&0x80 != 0 }
func (e *vfStepEnv) len7() int    { return int(e.b1 & 0x7f) }

// claimed payload length as an unsigned 64-bit number
func (e *vfStepEnv) claimed() uint64 {
	l16 := uint64(e.ext[0])<<8 | uint64(e.ext[1])
	var l64 uint64
	for i := 0; i < 8; i++ {
		l64 = l64<<8 | uint64(e.ext[i])
	}
	l7 := e.len7()
	return uint64(vfIte(l7 == 127, int(l64), vfIte(l7 == 126, int(l16), l7)))
}

func vfIsCtl(op int) bool  { return vfOr(vfOr(op == 8, op == 9), op == 10) }
func vfIsData(op int) bool { return vfOr(op == 1, op == 2) }

// specHeaderViolation: the frame header breaks RFC 6455 framing in a way the
// property names (reserved bits or opcodes, fragmented or oversized control
// frame, continuation with no message in progress, new data frame inside an
// unfinished message, wrong masking for the role). inMsg is the protocol state.
func (e *vfStepEnv) specHeaderViolation(inMsg bool) bool {
	op := e.opcode()
	v := vfOr(e.rsv2(), e.rsv3())
	v = vfOr(v, vfAnd(e.rsv1(), !e.pmce))
	reserved := vfOr(vfAnd(op >= 3, op <= 7), op >= 11)
	v = vfOr(v, reserved)
	v = vfOr(v, vfAnd(vfIsCtl(op), vfOr(!e.fin(), e.len7() > 125)))
	v = vfOr(v, vfAnd(op == 0, !inMsg))
	v = vfOr(v, vfAnd(vfIsData(op), inMsg))
	v = vfOr(v, e.masked() != e.isServer)
	return v
}

// dontcare: the property (and this reference) takes no position.
func (e *vfStepEnv) specHeaderDontcare() bool {
	// RSV1 on a control or continuation frame while the extension is negotiated
	return vfAnd(vfAnd(e.rsv1(), e.pmce), !vfIsData(e.opcode()))
}

func (e *vfStepEnv) headerLen() int {
	n := 2
	l7 := e.len7()
	n += vfIte(l7 == 126, 2, vfIte(l7 == 127, 8, 0))
	n += vfIte(e.masked(), 4, 0)
	return n
}

// vfCheckClose1002: the transport log holds exactly one frame, a close frame
// with the given status, at most 125 payload bytes, masked iff client.
func vfCheckCloseSent(tc *vfConn, isServer bool, status int, idp string) {
	w := tc.wire()
	vfAssert(tc.nWrites() == 1, idp+"-one-frame-written")
	f, next, ok := specDecodeFrame(w, 0)
	vfAssert(ok, idp+"-close-decodes")
	vfAssert(next == len(w), idp+"-nothing-after-close")
	vfAssert(f.opcode == 8, idp+"-is-close-frame")
	vfAssert(f.fin, idp+"-close-fin")
	vfAssert(!f.rsv1 && !f.rsv2 && !f.rsv3, idp+"-close-rsv-clear")
	vfAssert(f.masked == !isServer, idp+"-close-masked-iff-client")
	vfAssert(f.length >= 2 && f.length <= 125, idp+"-close-length")
	vfAssert(int(f.payload[0])<<8|int(f.payload[1]) == status, idp+"-close-status")
}

// vfStepCall drives one step through the public read API. In the idle state
// it calls NextReader; inside a message it calls Read on the message's reader
// with a one-byte buffer.
func (e *vfStepEnv) call(inMsg bool) (ft int, n int, got byte, err error) {
	c := e.c
	if !inMsg {
		t, r, err := c.NextReader()
		if err == nil && r == nil {
			vfAssert(false, "nextreader-returns-reader-or-error")
		}
		return t, 0, 0, err
	}
	var buf [1]byte
	n, err = c.reader.Read(buf[:])
	return noFrame, n, buf[0], err
}

// vfH_read_step_data: one step of the reader, through NextReader (idle) or
// the message reader's Read (inside a fragmented message), for every possible
// first two header bytes and extended length: data / continuation frames and
// all header violations (C03 header part, C04, C06 arithmetic, C07, C15 RSV1).
func vfH_read_step_data() {
	tier := vfParam("tier", 0)
	e := vfStepSetup(6, true, tier)
	c := e.c
	vfAllocBound(600)
	op := e.opcode()
	// control frames with a legal fin/length header are covered by vfH_read_step_ctl
	vfAssume(!vfAnd(vfIsCtl(op), vfAnd(e.fin(), e.len7() <= 125)))
	inMsg := vfChoose(2) == 1
	if inMsg {
		// inside a fragmented message whose previous frame is fully consumed
		c.readFinal = false
		c.messageReader = &messageReader{c}
		c.reader = c.messageReader
		c.readRemaining = 0
	} else {
		c.readFinal = true
		e.inLength = 0 // NextReader starts a new message
	}
	viol := e.specHeaderViolation(inMsg)
	dc := e.specHeaderDontcare()
	L := e.claimed()
	top := L>>63 != 0
	if inMsg {
		vfAssume(!vfAnd(op == 0, L == 0)) // empty continuation: covered end to end
	}
	pos0 := e.tc.rpos - c.br.Buffered()
	mr := c.messageReader

	ft, n, got, err := e.call(inMsg)

	consumed := e.tc.rpos - c.br.Buffered() - pos0
	vfAssert(len(e.pings)+len(e.pongs)+len(e.closes) == 0, "step-no-handler-for-nonctl")
	if err != nil {
		vfAssert(ft == noFrame && n == 0, "step-error-delivers-nothing")
	}
	// --- C04: violations are refused, with a 1002 close ---
	vfAssert(vfImplies(vfAnd(viol, !dc), err != nil), "c04-violation-refused")
	if err != nil && err != ErrReadLimit {
		// the stream holds a complete header and payload: only protocol errors are possible
		vfAssert(vfOr(viol, dc), "c04-no-spurious-protocol-error")
		vfCheckCloseSent(e.tc, e.isServer, 1002, "c04")
		vfAssert(consumed <= e.headerLen(), "c04-refused-before-payload")
		vfReach("step-protocol-error")
	}
	// --- C06: limit arithmetic ---
	if err == ErrReadLimit {
		vfAssert(!vfAnd(viol, !dc), "c04-violation-wins-over-limit")
		over := vfOr(top, L > uint64(math.MaxInt64-e.inLength))
		crossing := vfAnd(e.limit > 0, vfAnd(!over, e.inLength+int64(L) > e.limit))
		vfAssert(vfOr(over, crossing), "c06-limit-error-only-when-exceeded")
		vfAssert(consumed <= e.headerLen(), "c06-refused-before-payload")
		if e.tc.nWrites() > 0 {
			vfCheckCloseSent(e.tc, e.isServer, 1009, "c06")
		}
		vfAssert(vfImplies(crossing, e.tc.nWrites() == 1), "c06-1009-sent-on-crossing")
		vfReach("step-limit-error")
	}
	if err == nil {
		vfAssert(vfOr(!viol, dc), "c04-violation-refused")
		vfAssert(!top, "c06-top-bit-length-refused")
		vfAssert(L <= uint64(math.MaxInt64-e.inLength), "c06-overflowing-sum-refused")
		vfAssert(vfImplies(e.limit > 0, e.inLength+int64(L) <= e.limit), "c06-over-limit-refused")
		// inductive half: the invariant holds again, state advanced per the RFC
		vfAssert(c.readFinal == e.fin(), "step-final-flag-tracks-fin")
		vfAssert(c.readLength == e.inLength+int64(L), "c06-running-sum-exact")
		vfAssert(e.tc.nWrites() == 0, "step-nothing-written-on-accept")
		if inMsg {
			vfAssert(op == 0, "step-accepted-is-continuation")
			vfAssert(n == 1, "step-one-byte-delivered")
			vfAssert(c.readRemaining == int64(L)-1, "step-remaining-is-claimed-length")
			vfAssert(consumed >= e.headerLen()+1, "step-consumed-header-and-one-byte")
			want := vfPayloadAt(e, 0)
			if e.isServer {
				want ^= vfMaskKeyAt(e, 0)
			}
			vfAssert(got == want, "step-payload-byte-unmasked-with-frame-key")
		} else {
			vfAssert(ft == op, "step-frame-type")
			vfAssert(vfIsData(op), "step-accepted-is-data")
			vfAssert(c.readRemaining == int64(L), "step-remaining-is-claimed-length")
			vfAssert(consumed >= e.headerLen(), "step-consumed-header")
			vfAssert(c.readDecompress == vfAnd(e.rsv1(), e.pmce), "c15-rsv1-accepted-iff-negotiated")
			if e.isServer {
				for i := 0; i < 4; i++ {
					vfAssert(c.readMaskKey[i] == vfMaskKeyAt(e, i), "step-mask-key-taken-from-frame")
				}
				vfAssert(c.readMaskPos == 0, "step-mask-pos-reset")
			}
		}
		vfReach("step-accepted")
	}
	// fail-stop: the error is returned forever, nothing more is consumed or written
	if err != nil {
		nw := e.tc.nWrites()
		p1 := e.tc.rpos - c.br.Buffered()
		if inMsg {
			// the open message reader keeps failing with the same error
			var b1 [1]byte
			n5, err5 := mr.Read(b1[:])
			n6, err6 := mr.Read(b1[:])
			vfAssert(n5 == 0 && n6 == 0 && err5 == err && err6 == err, "c04-open-reader-error-is-permanent")
		}
		_, r2, err2 := c.NextReader()
		_, r3, err3 := c.NextReader()
		vfAssert(err2 == err && err3 == err, "c04-error-is-sticky")
		vfAssert(r2 == nil && r3 == nil, "c04-nothing-delivered-after-error")
		vfAssert(e.tc.nWrites() == nw, "c04-nothing-written-after-error")
		vfAssert(e.tc.rpos-c.br.Buffered() == p1, "c04-nothing-consumed-after-error")
		if inMsg {
			var b1 [1]byte
			n4, err4 := mr.Read(b1[:])
			vfAssert(n4 == 0 && err4 != nil, "c04-open-reader-fails-too")
		}
	}
}

// vfPayloadAt: the i-th payload byte on the wire (position depends on the
// length form and masking); needs 4+i < len(rest) for the 64-bit form.
func vfPayloadAt(e *vfStepEnv, i int) byte {
	// bytes after the 2-byte header: ext[0..7] then rest[...]
	at := func(j int) byte {
		if j < 8 {
			return e.ext[j]
		}
		return e.rest[j-8]
	}
	l7 := e.len7()
	m := e.masked()
	// offset = extlen + (masked ? 4 : 0) + i
	var cands [6]byte
	cands[0] = at(0 + i)  // 7-bit, unmasked
	cands[1] = at(4 + i)  // 7-bit, masked
	cands[2] = at(2 + i)  // 16-bit, unmasked
	cands[3] = at(6 + i)  // 16-bit, masked
	cands[4] = at(8 + i)  // 64-bit, unmasked
	cands[5] = at(12 + i) // 64-bit, masked
	u := vfIte(l7 == 127, int(cands[4]), vfIte(l7 == 126, int(cands[2]), int(cands[0])))
	k := vfIte(l7 == 127, int(cands[5]), vfIte(l7 == 126, int(cands[3]), int(cands[1])))
	return byte(vfIte(m, k, u))
}

// vfMaskKeyAt: the i-th key byte of the frame on the wire (position depends
// on the length form).
func vfMaskKeyAt(e *vfStepEnv, i int) byte {
	l7 := e.len7()
	k16 := e.ext[2+i]
	var k64 byte
	if i < len(e.rest) {
		k64 = e.rest[i]
	}
	k7 := e.ext[i]
	return byte(vfIte(l7 == 127, int(k64), vfIte(l7 == 126, int(k16), int(k7))))
}

// vfH_read_step_ctl: one reader step on a control frame with a legal
// fin/length header: every opcode/RSV combination, payload lengths from a
// boundary menu, symbolic payload, symbolic close code, recording or default
// or failing handlers (C04 close bodies, C08 dispatch, C07 no panic).
func vfH_read_step_ctl() {
	vfInit()
	vfClockMaxStep(int64(writeWait) / 4)
	tier := vfParam("tier", 0)
	isServer := vfChoose(2) == 1
	pmce := false
	masked := vfChoose(2) == 1
	lens := []int{0, 1, 2, 3, 6, 125}
	if tier >= 1 {
		lens = []int{0, 1, 2, 3, 4, 5, 6, 8, 17, 124, 125}
	}
	n := vfPick(lens)
	mode := vfChoose(3) // 0 recording handlers, 1 default handlers, 2 failing handler
	b0 := vfByte()
	b1 := vfByte()
	vfAssume(int(b1&0x7f) == n)
	vfAssume((b1&0x80 != 0) == masked)
	vfAssume(b0&0x80 != 0) // FIN (fragmented control frames: step_data)
	op := int(b0 & 0x0f)
	vfAssume(vfIsCtl(op))
	key := [4]byte{vfByte(), vfByte(), vfByte(), vfByte()}
	payload := vfBytes(n)
	if n > 8 {
		// long bodies: ASCII only, so that UTF-8 validation does not fork per byte
		for i := 2; i < n; i++ {
			vfAssume(payload[i] < 0x80)
		}
	}
	k := 0
	chunkOne := false
	if vfChoose(2) == 1 {
		k, chunkOne = 5, true
	}
	var stream []byte
	for i := 0; i < k; i++ {
		stream = append(stream, byte(i))
	}
	stream = append(stream, b0, b1)
	if masked {
		stream = append(stream, key[:]...)
	}
	for i := 0; i < n; i++ {
		b := payload[i]
		if masked {
			b ^= key[i&3]
		}
		stream = append(stream, b)
	}
	// a valid empty final frame follows, so that the read call can complete
	inMsg := vfChoose(2) == 1
	fb0 := byte(0x81)
	if inMsg {
		fb0 = 0x80
	}
	if isServer {
		stream = append(stream, fb0, 0x80, 1, 2, 3, 4)
	} else {
		stream = append(stream, fb0, 0x00)
	}
	tc := vfNewConn(stream)
	if chunkOne {
		tc.chunkMode = vfChunkOne
	}
	br := bufio.NewReaderSize(tc, 125)
	if k > 0 {
		br.Peek(k)
		br.Discard(k)
	}
	c := newConn(tc, isServer, 0, 16, nil, br, nil)
	c.readMaskPos = int(vfByte() & 3)
	c.readMaskKey = [4]byte{vfByte(), vfByte(), vfByte(), vfByte()}
	if inMsg {
		c.readFinal = false
		c.messageReader = &messageReader{c}
		c.reader = c.messageReader
		c.readLength = 5
	}
	var pings, pongs, closes []string
	var ccodes []int
	var herr error
	if mode == 2 {
		herr = &vfNetErr{}
	}
	if mode != 1 {
		c.SetPingHandler(func(s string) error { pings = append(pings, s); return herr })
		c.SetPongHandler(func(s string) error { pongs = append(pongs, s); return herr })
		c.SetCloseHandler(func(code int, s string) error {
			closes = append(closes, s)
			ccodes = append(ccodes, code)
			return herr
		})
	}
	vfAllocBound(700)
	rsvBad := vfOr(vfOr(b0&0x40 != 0, b0&0x20 != 0), b0&0x10 != 0)
	maskBad := masked != isServer
	hdrViol := vfOr(rsvBad, maskBad)
	_ = pmce

	// drive the step through the public API
	mrOpen := c.messageReader
	var ft int
	var err error
	cleanEnd := false // the call completed normally on the follow-up frame
	if inMsg {
		var b1 [1]byte
		var n int
		n, err = c.reader.Read(b1[:])
		vfAssert(n == 0, "ctl-no-data-from-control-frame")
		if err == io.EOF {
			cleanEnd, err = true, nil
		}
	} else {
		var r io.Reader
		ft, r, err = c.NextReader()
		if err == nil {
			vfAssert(ft == TextMessage && r != nil, "ctl-next-message-follows")
			cleanEnd = true
		}
	}
	vfAssert(vfImplies(hdrViol, err != nil), "c04-violation-refused")
	nh := len(pings) + len(pongs) + len(closes)
	// close-body classes
	code := 0
	if n >= 2 {
		code = int(payload[0])<<8 | int(payload[1])
	}
	if hdrViol {
		// concrete per path? hdrViol is symbolic; handled through implications below
	}
	isProto := err != nil && err != herr
	if _, isCE := err.(*CloseError); isCE {
		isProto = false
	}
	if isProto {
		// a protocol error: must be justified, must have sent 1002, no handler ran
		just := hdrViol
		if op == 8 && n >= 2 {
			just = vfOr(just, !specCloseMustAccept(code))
			just = vfOr(just, !specUTF8ValidT(payload[2:]))
		}
		vfAssert(just, "c04-no-spurious-protocol-error")
		vfAssert(nh == 0, "c04-no-handler-on-violation")
		vfCheckCloseSent(tc, isServer, 1002, "c04")
		vfReach("ctl-protocol-error")
	} else {
		vfAssert(!hdrViol, "c04-violation-refused")
		switch op {
		case 9:
			if mode != 1 {
				vfAssert(len(pings) == 1 && nh == 1, "c08-ping-handler-once")
				vfAssert(vfAllEq([]byte(pings[0]), payload), "c08-ping-payload-exact")
				vfAssert(err == herr, "c08-handler-error-returned")
				vfAssert(cleanEnd == (herr == nil), "c08-read-continues-after-ping")
			} else {
				vfAssert(err == nil && cleanEnd, "c08-ping-accepted")
				// default handler: one pong with the identical payload
				w := tc.wire()
				vfAssert(tc.nWrites() == 1, "c08-one-pong")
				f, next, ok := specDecodeFrame(w, 0)
				vfAssert(ok && next == len(w), "c08-pong-decodes")
				vfAssert(f.opcode == 10 && f.fin, "c08-pong-opcode")
				vfAssert(f.masked == !isServer, "c08-pong-masked-iff-client")
				vfAssert(vfAllEq(f.payload, payload), "c08-pong-payload-identical")
			}
			vfReach("ctl-ping")
		case 10:
			if mode != 1 {
				vfAssert(len(pongs) == 1 && nh == 1, "c08-pong-handler-once")
				vfAssert(vfAllEq([]byte(pongs[0]), payload), "c08-pong-payload-exact")
				vfAssert(err == herr, "c08-handler-error-returned")
				vfAssert(cleanEnd == (herr == nil), "c08-read-continues-after-pong")
			} else {
				vfAssert(err == nil && cleanEnd, "c08-pong-accepted")
				vfAssert(tc.nWrites() == 0, "c08-pong-not-answered")
			}
			vfReach("ctl-pong")
		case 8:
			if n == 1 {
				// a one-byte close body: the property is silent
				vfReach("ctl-close-1byte-dontcare")
				return
			}
			wantCode := 1005
			var wantText []byte
			if n >= 2 {
				wantCode = code
				wantText = payload[2:]
				vfAssert(!specCloseMustReject(code), "c04-bad-close-code-refused")
				vfAssert(specUTF8ValidT(wantText), "c04-bad-utf8-close-refused")
			}
			if mode != 1 {
				vfAssert(len(closes) == 1 && nh == 1, "c08-close-handler-once")
				vfAssert(ccodes[0] == wantCode, "c08-close-handler-code")
				vfAssert(vfAllEq([]byte(closes[0]), wantText), "c08-close-handler-text")
			}
			if mode == 2 {
				vfAssert(err == herr, "c08-handler-error-returned")
			} else {
				ce, isCE := err.(*CloseError)
				vfAssert(isCE, "c08-close-yields-closeerror")
				vfAssert(ce.Code == wantCode, "c08-closeerror-code")
				vfAssert(vfAllEq([]byte(ce.Text), wantText), "c08-closeerror-text")
			}
			if mode == 1 {
				// default handler echoes a close with the same status (empty for 1005)
				w := tc.wire()
				vfAssert(tc.nWrites() == 1, "c08-one-close-echo")
				f, next, ok := specDecodeFrame(w, 0)
				vfAssert(ok && next == len(w), "c08-echo-decodes")
				vfAssert(f.opcode == 8 && f.fin, "c08-echo-is-close")
				vfAssert(f.masked == !isServer, "c08-echo-masked-iff-client")
				if n == 0 {
					vfAssert(f.length == 0, "c08-echo-empty-for-no-status")
				} else {
					vfAssert(f.length >= 2, "c08-echo-has-status")
					vfAssert(int(f.payload[0])<<8|int(f.payload[1]) == wantCode, "c08-echo-same-status")
				}
			}
			vfReach("ctl-close")
		}
	}
	if err != nil {
		nw := tc.nWrites()
		if inMsg {
			// an error from a handler or a violation is permanent for the open reader too
			var b1 [1]byte
			n5, err5 := mrOpen.Read(b1[:])
			n6, err6 := mrOpen.Read(b1[:])
			vfAssert(n5 == 0 && n6 == 0 && err5 == err && err6 == err, "c08-open-reader-error-is-permanent")
		}
		_, r2, err2 := c.NextReader()
		_, r3, err3 := c.NextReader()
		vfAssert(err2 == err && err3 == err, "c04-error-is-sticky")
		vfAssert(r2 == nil && r3 == nil, "c04-nothing-delivered-after-error")
		vfAssert(tc.nWrites() == nw, "c04-nothing-written-after-error")
		vfAssert(len(pings)+len(pongs)+len(closes) == nh, "c08-no-dispatch-after-error")
	}
}

//go:build verif

package websocket

import (
	"bytes"
	"compress/flate"
	"io"
)

// Reference models written from the RFC text (RFC 6455 section 5, RFC 7692
// section 7, RFC 3629). They call nothing in the library.

type specFrame struct {
	fin, rsv1, rsv2, rsv3 bool
	opcode                int
	masked                bool
	key                   [4]byte
	length                int
	lenForm               int    // 0: 7-bit, 1: 16-bit, 2: 64-bit
	payload               []byte // unmasked
	start, end            int    // wire offsets
}

// specDecodeFrame decodes one frame at off (RFC 6455 5.2). ok is false when
// the wire ends inside the frame, the 64-bit length has its top bit set, or
// the length is not minimally encoded.
func specDecodeFrame(w []byte, off int) (f specFrame, next int, ok bool) {
	if off+2 > len(w) {
		return f, off, false
	}
	b0, b1 := w[off], w[off+1]
	f.start = off
	f.fin = b0&0x80 != 0
	f.rsv1 = b0&0x40 != 0
	f.rsv2 = b0&0x20 != 0
	f.rsv3 = b0&0x10 != 0
	f.opcode = int(b0 & 0x0f)
	f.masked = b1&0x80 != 0
	l7 := int(b1 & 0x7f)
	p := off + 2
	switch l7 {
	case 126:
		if p+2 > len(w) {
			return f, off, false
		}
		f.length = int(w[p])<<8 | int(w[p+1])
		f.lenForm = 1
		p += 2
		if f.length < 126 {
			return f, off, false // not minimal
		}
	case 127:
		if p+8 > len(w) {
			return f, off, false
		}
		if w[p]&0x80 != 0 {
			return f, off, false // most significant bit MUST be 0
		}
		var l uint64
		for i := 0; i < 8; i++ {
			l = l<<8 | uint64(w[p+i])
		}
		f.lenForm = 2
		p += 8
		if l < 65536 {
			return f, off, false // not minimal
		}
		if l > uint64(len(w)) {
			return f, off, false
		}
		f.length = int(l)
	default:
		f.length = l7
	}
	f.length = vfConcretize(f.length)
	if f.masked {
		if p+4 > len(w) {
			return f, off, false
		}
		copy(f.key[:], w[p:p+4])
		p += 4
	}
	if p+f.length > len(w) {
		return f, off, false
	}
	f.payload = make([]byte, f.length)
	for i := 0; i < f.length; i++ {
		b := w[p+i]
		if f.masked {
			b ^= f.key[i&3]
		}
		f.payload[i] = b
	}
	f.end = p + f.length
	return f, f.end, true
}

type specMsg struct {
	opcode     int
	payload    []byte
	compressed bool
	nframes    int
	keys       [][4]byte
}

type specCtl struct {
	opcode   int
	payload  []byte
	afterMsg int // number of data messages completed before it
	inMsg    bool
	dataSeen int // data payload bytes of the current message seen before it
	key      [4]byte
}

type specStream struct {
	msgs   []specMsg
	ctls   []specCtl
	frames []specFrame
	ok     bool
	why    string
	rest   int  // offset of the first byte not decoded
	open   bool // a fragmented message is unfinished at the end
}

// specDecodeStream decodes and validates a whole wire image sent by one
// endpoint (RFC 6455 5.1, 5.4, 5.5; RFC 7692 6).
func specDecodeStream(w []byte, fromClient bool, pmce bool) specStream {
	var s specStream
	off := 0
	inMsg := false
	var cur specMsg
	for off < len(w) {
		f, next, ok := specDecodeFrame(w, off)
		if !ok {
			s.why = "undecodable frame"
			s.rest = off
			s.open = inMsg
			return s
		}
		s.frames = append(s.frames, f)
		if f.masked != fromClient {
			s.why = "wrong masking for role"
			return s
		}
		if f.rsv2 || f.rsv3 {
			s.why = "RSV2/RSV3 set"
			return s
		}
		switch {
		case f.opcode >= 8:
			if f.opcode > 10 {
				s.why = "reserved control opcode"
				return s
			}
			if !f.fin {
				s.why = "fragmented control frame"
				return s
			}
			if f.length > 125 {
				s.why = "control frame too long"
				return s
			}
			if f.rsv1 {
				s.why = "RSV1 on control frame"
				return s
			}
			s.ctls = append(s.ctls, specCtl{opcode: f.opcode, payload: f.payload, afterMsg: len(s.msgs), inMsg: inMsg, dataSeen: len(cur.payload), key: f.key})
		case f.opcode == 0:
			if !inMsg {
				s.why = "continuation without message"
				return s
			}
			if f.rsv1 {
				s.why = "RSV1 on continuation"
				return s
			}
			cur.payload = append(cur.payload, f.payload...)
			cur.nframes++
			cur.keys = append(cur.keys, f.key)
			if f.fin {
				s.msgs = append(s.msgs, cur)
				inMsg = false
				cur = specMsg{}
			}
		case f.opcode == 1 || f.opcode == 2:
			if inMsg {
				s.why = "new data frame inside message"
				return s
			}
			if f.rsv1 && !pmce {
				s.why = "RSV1 without negotiated extension"
				return s
			}
			cur = specMsg{opcode: f.opcode, compressed: f.rsv1, nframes: 1}
			cur.payload = append(cur.payload, f.payload...)
			cur.keys = append(cur.keys, f.key)
			if f.fin {
				s.msgs = append(s.msgs, cur)
				cur = specMsg{}
			} else {
				inMsg = true
			}
		default:
			s.why = "reserved data opcode"
			return s
		}
		off = next
	}
	s.rest = off
	s.open = inMsg
	s.ok = true
	return s
}

// specEncodeFrame builds one frame (minimal length encoding).
func specEncodeFrame(fin bool, rsv1 bool, opcode int, masked bool, key [4]byte, payload []byte) []byte {
	var out []byte
	b0 := byte(opcode)
	if fin {
		b0 |= 0x80
	}
	if rsv1 {
		b0 |= 0x40
	}
	out = append(out, b0)
	mb := byte(0)
	if masked {
		mb = 0x80
	}
	n := len(payload)
	switch {
	case n <= 125:
		out = append(out, mb|byte(n))
	case n <= 65535:
		out = append(out, mb|126, byte(n>>8), byte(n))
	default:
		out = append(out, mb|127, 0, 0, 0, 0, byte(n>>24), byte(n>>16), byte(n>>8), byte(n))
	}
	if masked {
		out = append(out, key[0], key[1], key[2], key[3])
	}
	for i, b := range payload {
		if masked {
			b ^= key[i&3]
		}
		out = append(out, b)
	}
	return out
}

// specCloseCode classifies a received close status code:
// 1 = must be accepted, 2 = must be rejected, 0 = the property is silent.
func specCloseCode(code int) int {
	switch {
	case code >= 1000 && code <= 1003:
		return 1
	case code >= 1007 && code <= 1011:
		return 1
	case code >= 3000 && code <= 4999:
		return 1
	case code == 1012 || code == 1013:
		// Service Restart / Try Again Later: registered in the IANA WebSocket close
		// code registry (the one conn.go cites) with public specifications
		return 1
	case code == 1014:
		return 0 // registered later (Bad Gateway): either treatment is accepted
	}
	return 2
}

// specUTF8Valid follows RFC 3629's table of well-formed byte sequences.
func specUTF8Valid(b []byte) bool {
	i := 0
	for i < len(b) {
		c := b[i]
		switch {
		case c <= 0x7f:
			i++
		case c >= 0xc2 && c <= 0xdf:
			if i+1 >= len(b) || !specCont(b[i+1], 0x80, 0xbf) {
				return false
			}
			i += 2
		case c == 0xe0:
			if i+2 >= len(b) || !specCont(b[i+1], 0xa0, 0xbf) || !specCont(b[i+2], 0x80, 0xbf) {
				return false
			}
			i += 3
		case (c >= 0xe1 && c <= 0xec) || c == 0xee || c == 0xef:
			if i+2 >= len(b) || !specCont(b[i+1], 0x80, 0xbf) || !specCont(b[i+2], 0x80, 0xbf) {
				return false
			}
			i += 3
		case c == 0xed:
			if i+2 >= len(b) || !specCont(b[i+1], 0x80, 0x9f) || !specCont(b[i+2], 0x80, 0xbf) {
				return false
			}
			i += 3
		case c == 0xf0:
			if i+3 >= len(b) || !specCont(b[i+1], 0x90, 0xbf) || !specCont(b[i+2], 0x80, 0xbf) || !specCont(b[i+3], 0x80, 0xbf) {
				return false
			}
			i += 4
		case c >= 0xf1 && c <= 0xf3:
			if i+3 >= len(b) || !specCont(b[i+1], 0x80, 0xbf) || !specCont(b[i+2], 0x80, 0xbf) || !specCont(b[i+3], 0x80, 0xbf) {
				return false
			}
			i += 4
		case c == 0xf4:
			if i+3 >= len(b) || !specCont(b[i+1], 0x80, 0x8f) || !specCont(b[i+2], 0x80, 0xbf) || !specCont(b[i+3], 0x80, 0xbf) {
				return false
			}
			i += 4
		default:
			return false
		}
	}
	return true
}

func specCont(b, lo, hi byte) bool { return b >= lo && b <= hi }

// specInflateStored implements RFC 7692 7.2.2 for payloads consisting of
// stored deflate blocks (RFC 1951 3.2.4): append 00 00 ff ff and decode.
// inModel is false when a non-stored block type is met.
func specInflateStored(payload []byte) (out []byte, ok bool, inModel bool) {
	if !vfSymbolic() {
		// native replay: the library ran the real compress/flate, so the wire holds
		// real deflate output; inflate it with the standard library (RFC 7692 7.2.2:
		// append 00 00 ff ff; a final empty stored block ends the stream)
		return specInflateNative(payload)
	}
	d := append(append([]byte(nil), payload...), 0x00, 0x00, 0xff, 0xff)
	i := 0
	for i < len(d) {
		h := d[i]
		if h&0x06 != 0 {
			return nil, false, false
		}
		if i+5 > len(d) {
			return nil, false, true
		}
		n := int(d[i+1]) | int(d[i+2])<<8
		nn := int(d[i+3]) | int(d[i+4])<<8
		if nn != n^0xffff {
			return nil, false, true
		}
		n = vfConcretize(n)
		i += 5
		if i+n > len(d) {
			return nil, false, true
		}
		out = append(out, d[i:i+n]...)
		i += n
		if h&1 != 0 {
			break
		}
	}
	return out, true, true
}

// specDeflateStored is the reference compressor used to build peer streams:
// the data as stored blocks of at most blk bytes, flushed with an empty
// stored block whose trailing 00 00 ff ff is removed (RFC 7692 7.2.1).
func specDeflateStored(data []byte, blk int, final bool) []byte {
	var out []byte
	for len(data) > 0 {
		n := len(data)
		if blk > 0 && n > blk {
			n = blk
		}
		out = append(out, 0x00, byte(n), byte(n>>8), ^byte(n), ^byte(n>>8))
		out = append(out, data[:n]...)
		data = data[n:]
	}
	if final {
		// a BFINAL empty stored block, then the sync marker (RFC 7692 7.2.3.4-5:
		// an endpoint may send a final block followed by an empty non-final one)
		out = append(out, 0x01, 0x00, 0x00, 0xff, 0xff)
	}
	out = append(out, 0x00)
	return out
}

// ---- non-forking (term-level) variants used inside symbolic harnesses ----

func specIn(b byte, lo, hi byte) bool { return vfAnd(b >= lo, b <= hi) }

// specUTF8ValidT is specUTF8Valid written as one boolean expression (a
// right-to-left dynamic programme over the positions), so that evaluating it
// on symbolic bytes does not fork.
func specUTF8ValidT(b []byte) bool {
	n := len(b)
	v := make([]bool, n+5)
	v[n] = true
	for i := n - 1; i >= 0; i-- {
		c := b[i]
		ok := vfAnd(c <= 0x7f, v[i+1])
		if i+1 < n {
			ok = vfOr(ok, vfAnd(vfAnd(specIn(c, 0xc2, 0xdf), specIn(b[i+1], 0x80, 0xbf)), v[i+2]))
		}
		if i+2 < n {
			t2 := specIn(b[i+2], 0x80, 0xbf)
			lead := vfAnd(c == 0xe0, specIn(b[i+1], 0xa0, 0xbf))
			lead = vfOr(lead, vfAnd(vfOr(specIn(c, 0xe1, 0xec), specIn(c, 0xee, 0xef)), specIn(b[i+1], 0x80, 0xbf)))
			lead = vfOr(lead, vfAnd(c == 0xed, specIn(b[i+1], 0x80, 0x9f)))
			ok = vfOr(ok, vfAnd(vfAnd(lead, t2), v[i+3]))
		}
		if i+3 < n {
			t23 := vfAnd(specIn(b[i+2], 0x80, 0xbf), specIn(b[i+3], 0x80, 0xbf))
			lead := vfAnd(c == 0xf0, specIn(b[i+1], 0x90, 0xbf))
			lead = vfOr(lead, vfAnd(specIn(c, 0xf1, 0xf3), specIn(b[i+1], 0x80, 0xbf)))
			lead = vfOr(lead, vfAnd(c == 0xf4, specIn(b[i+1], 0x80, 0x8f)))
			ok = vfOr(ok, vfAnd(vfAnd(lead, t23), v[i+4]))
		}
		v[i] = ok
	}
	return v[0]
}

// specCloseMustAccept / specCloseMustReject: the property's close-code classes.
func specCloseMustAccept(code int) bool {
	a := vfAnd(code >= 1000, code <= 1003)
	// 1012 Service Restart, 1013 Try Again Later: registered in the IANA close code
	// registry (the one conn.go cites) with public specifications
	a = vfOr(a, vfAnd(code >= 1007, code <= 1013))
	a = vfOr(a, vfAnd(code >= 3000, code <= 4999))
	return a
}

// 1014 (Bad Gateway) was registered later: either treatment is accepted
func specCloseDontcare(code int) bool { return code == 1014 }

func specCloseMustReject(code int) bool {
	return vfAnd(!specCloseMustAccept(code), !specCloseDontcare(code))
}

func specInflateNative(payload []byte) (out []byte, ok bool, inModel bool) {
	d := append(append([]byte(nil), payload...), 0x00, 0x00, 0xff, 0xff, 0x01, 0x00, 0x00, 0xff, 0xff)
	r := flate.NewReader(bytes.NewReader(d))
	out, err := io.ReadAll(r)
	return out, err == nil, true
}

// specDeflateStoredF: like specDeflateStored; with bfinal the LAST data block
// carries BFINAL=1 (a peer may end each message's deflate stream that way,
// RFC 7692 7.2.3.4) and is followed by the empty non-final block whose tail is
// stripped.
func specDeflateStoredF(data []byte, blk int, bfinal bool) []byte {
	if !bfinal || len(data) == 0 {
		return specDeflateStored(data, blk, false)
	}
	var out []byte
	for len(data) > 0 {
		n := len(data)
		if blk > 0 && n > blk {
			n = blk
		}
		h := byte(0x00)
		if n == len(data) {
			h = 0x01
		}
		out = append(out, h, byte(n), byte(n>>8), ^byte(n), ^byte(n>>8))
		out = append(out, data[:n]...)
		data = data[n:]
	}
	out = append(out, 0x00)
	return out
}

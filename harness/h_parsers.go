//go:build verif

package websocket

import (
	"net/http"
	"net/url"
)

// ---- reference predicates for header syntax (RFC 7230 3.2.6, 7; RFC 6455 4.x) ----

// specIsTchar: RFC 7230 token characters (one boolean term, no forking).
func specIsTchar(b byte) bool {
	r := vfAnd(b >= '0', b <= '9')
	r = vfOr(r, vfAnd(b >= 'a', b <= 'z'))
	r = vfOr(r, vfAnd(b >= 'A', b <= 'Z'))
	for _, c := range []byte("!#$%&'*+-.^_`|~") {
		r = vfOr(r, b == c)
	}
	return r
}

func specIsOWS(b byte) bool { return vfOr(b == ' ', b == '\t') }

func specFoldByte(b byte) byte {
	return byte(vfIte(vfAnd(b >= 'A', b <= 'Z'), int(b)+32, int(b)))
}

// specASCIIFoldEq: same length and equal bytes after mapping A-Z to a-z only.
func specASCIIFoldEq(s, t string) bool {
	return vfFoldEqT(s, t)
}

// specListElements splits a header line at commas and trims OWS; wellFormed is
// true when the line is 1#token with no empty element.
func specListElements(s string) (elems []string, wellFormed bool) {
	wellFormed = true
	start := 0
	for i := 0; i <= len(s); i++ {
		if i == len(s) || s[i] == ',' {
			a, b := start, i
			for a < b && specIsOWS(s[a]) {
				a++
			}
			for b > a && specIsOWS(s[b-1]) {
				b--
			}
			e := s[a:b]
			if len(e) == 0 {
				wellFormed = false
			}
			for j := 0; j < len(e); j++ {
				wellFormed = vfAnd(wellFormed, specIsTchar(e[j]))
			}
			elems = append(elems, e)
			start = i + 1
		}
	}
	return elems, wellFormed
}

// specListHas: some comma-delimited element (OWS trimmed) equals value under
// ASCII case folding.
func specListHas(s string, value string) bool {
	elems, _ := specListElements(s)
	r := false
	for _, e := range elems {
		r = vfOr(r, specASCIIFoldEq(e, value))
	}
	return r
}

// vfH_tokenlist_diff (C12.H1 / C14): tokenListContainsValue against the
// reference, three-valued: (soundness) it never accepts a line in which no
// comma-delimited element equals the value; (completeness) it accepts every
// well-formed 1#token line that has the value as an element.
func vfH_tokenlist_diff() {
	tier := vfParam("tier", 0)
	vals := []string{"upgrade", "websocket", "13"}
	value := vals[vfChoose(3)]
	mode := vfChoose(2)
	if fm := vfParam("mode", -1); fm >= 0 {
		mode = fm
	}
	var lines []string
	if mode == 0 {
		// arbitrary bytes
		N := vfParam("N", 4+tier)
		n := vfChoose(N + 1)
		lines = []string{vfString(n)}
		if l2 := vfParam("L2", 2*tier); l2 > 0 && vfChoose(2) == 1 {
			lines = append(lines, vfString(vfChoose(l2+1)))
		}
	} else {
		// grammar templates: elements joined by OWS "," OWS with symbolic OWS and case
		nel := 1 + vfChoose(vfParam("NEL", 2+tier))
		line := ""
		for i := 0; i < nel; i++ {
			if i > 0 {
				line += vfOWS() + "," + vfOWS()
			}
			switch vfChoose(5) {
			case 0:
				line += vfCaseVariant(value)
			case 1:
				line += value + "s" // near miss: suffix
			case 2:
				line += "x" + value // near miss: prefix
			case 3:
				line += value[:len(value)-1] // near miss: truncated
			case 4:
				line += "keep-alive"
			}
		}
		lines = []string{line}
		if vfChoose(2) == 1 {
			lines = append(lines, vfCaseVariant(value))
		}
	}
	// net/http never delivers CR or LF inside a header value
	for _, l := range lines {
		for i := 0; i < len(l); i++ {
			vfAssume(vfAnd(l[i] != '\r', l[i] != '\n'))
		}
	}
	h := http.Header{"Connection": lines}
	got := tokenListContainsValue(h, "Connection", value)
	anyHas := false
	allWF := true
	for _, l := range lines {
		anyHas = vfOr(anyHas, specListHas(l, value))
		_, wf := specListElements(l)
		allWF = vfAnd(allWF, wf)
	}
	vfAssert(vfImplies(got, anyHas), "c12-token-accepted-only-if-present")
	vfAssert(vfImplies(vfAnd(anyHas, allWF), got), "c12-token-in-wellformed-list-found")
	vfReach("tokenlist-end")
}

// vfOWS: zero or one (thorough: two) optional-whitespace characters, symbolic.
func vfOWS() string {
	n := vfChoose(vfParam("OWS", 2+vfParam("tier", 0)))
	s := vfString(n)
	for i := 0; i < n; i++ {
		vfAssume(vfOr(s[i] == ' ', s[i] == '\t'))
	}
	return s
}

// vfCaseVariant: s in lower case, upper case, or with two letters (the first
// and one case-split position) in symbolic case. (Every letter symbolic makes
// the implementation's rune-by-rune comparison fork 2^len ways.)
func vfCaseVariant(s string) string {
	b := []byte(s)
	switch vfChoose(3) {
	case 0:
		return s
	case 1:
		for i := range b {
			if b[i] >= 'a' && b[i] <= 'z' {
				b[i] -= 32
			}
		}
		return string(b)
	}
	k := vfPick([]int{1, len(b) - 1})
	for _, i := range []int{0, k} {
		if b[i] >= 'a' && b[i] <= 'z' {
			b[i] = byte(vfIte(vfBool(), int(b[i])-32, int(b[i])))
		}
	}
	return string(b)
}

// vfH_fold_diff (C13.H1): equalASCIIFold(s, t) == reference for every s of
// arbitrary bytes and every ASCII t (the role of r.Host) up to N bytes each.
func vfH_fold_diff() {
	N := vfParam("N", 3)
	ns := vfChoose(N + 1)
	nt := vfChoose(N + 1)
	s := vfString(ns)
	t := vfString(nt)
	for i := 0; i < nt; i++ {
		vfAssume(t[i] < 0x80)
	}
	got := equalASCIIFold(s, t)
	want := vfFoldEqT(s, t)
	vfAssert(got == want, "c13-ascii-fold-only")
	got2 := equalASCIIFold(t, s)
	vfAssert(got2 == want, "c13-ascii-fold-symmetric")
	vfReach("fold-diff-end")
}

// vfFoldEqT: specASCIIFoldEq as one boolean term.
func vfFoldEqT(s, t string) bool {
	if len(s) != len(t) {
		return false
	}
	r := true
	for i := 0; i < len(s); i++ {
		a, b := s[i], t[i]
		au := vfAnd(a >= 'A', a <= 'Z')
		bu := vfAnd(b >= 'A', b <= 'Z')
		fa := byte(vfIte(au, int(a)+32, int(a)))
		fb := byte(vfIte(bu, int(b)+32, int(b)))
		r = vfAnd(r, fa == fb)
	}
	return r
}

// ---- base64 key validity (RFC 4648 section 4), non-forking reference ----

func specB64Alpha(b byte) bool {
	r := vfAnd(b >= 'A', b <= 'Z')
	r = vfOr(r, vfAnd(b >= 'a', b <= 'z'))
	r = vfOr(r, vfAnd(b >= '0', b <= '9'))
	r = vfOr(r, vfOr(b == '+', b == '/'))
	return r
}

// specKeyValid: s is base64 (standard alphabet, padded) of exactly 16 bytes:
// 24 characters, the first 22 from the alphabet, then "==".
func specKeyValid(s string) bool {
	if len(s) != 24 {
		return false
	}
	r := true
	for i := 0; i < 22; i++ {
		r = vfAnd(r, specB64Alpha(s[i]))
	}
	r = vfAnd(r, vfAnd(s[22] == '=', s[23] == '='))
	return r
}

// vfH_key_diff (C12.H2): isValidChallengeKey == reference for every string of
// the listed lengths (CR/LF excluded: net/http never delivers them).
func vfH_key_diff() {
	n := vfPick([]int{0, 1, 20, 22, 23, 24, 25, 28})
	s := vfString(n)
	for i := 0; i < n; i++ {
		vfAssume(vfAnd(s[i] != '\r', s[i] != '\n'))
	}
	got := isValidChallengeKey(s)
	vfAssert(got == specKeyValid(s), "c12-key-valid-iff-base64-of-16-bytes")
	vfReach("key-diff-end")
}

// vfH_parsers_nopanic (C07.H2): the header parsers on arbitrary bytes: no
// panic, bounded loops, bounded allocation.
func vfH_parsers_nopanic() {
	N := vfParam("N", 6)
	n := vfChoose(N + 1)
	s := vfString(n)
	vfAllocBound(64 + 4*n)
	vfUnwind(4*n + 16)
	switch vfChoose(8) {
	case 0:
		tokenListContainsValue(http.Header{"Upgrade": {s, "websocket"}}, "Upgrade", "websocket")
	case 1:
		parseExtensions(http.Header{"Sec-Websocket-Extensions": {s}})
	case 2:
		nextTokenOrQuoted(s)
	case 3:
		equalASCIIFold(s, "example.com")
		equalASCIIFold("example.com", s)
	case 4:
		for i := 0; i < n; i++ {
			// lead bytes of non-ASCII Unicode spaces: strings.TrimSpace's Unicode path is not modelled
			vfAssume(vfAnd(vfAnd(s[i] != 0xc2, s[i] != 0xe1), vfAnd(s[i] != 0xe2, s[i] != 0xe3)))
		}
		Subprotocols(&http.Request{Header: http.Header{"Sec-Websocket-Protocol": {s}}})
	case 5:
		isValidChallengeKey(s)
	case 6:
		hostPortNoPort(&url.URL{Scheme: "ws", Host: s})
	case 7:
		for i := 0; i < n; i++ {
			vfAssume(vfAnd(vfAnd(s[i] != 0xc2, s[i] != 0xe1), vfAnd(s[i] != 0xe2, s[i] != 0xe3)))
		}
		u := &Upgrader{Subprotocols: []string{"chat", s}}
		u.selectSubprotocol(&http.Request{Header: http.Header{"Sec-Websocket-Protocol": {s}}}, nil)
	}
	vfReach("parsers-end")
}

// ---- permessage-deflate offers (RFC 7692 5, RFC 6455 9.1) ----

// specOffersPMD: the header lines, read as an extension-list, contain an
// extension whose name is exactly "permessage-deflate". Three-valued: wf tells
// whether every line is a well-formed extension-list (only then the verdict is
// binding).
func specOffersPMD(lines []string) (offered bool, wf bool) {
	wf = true
	for _, l := range lines {
		// split elements at commas outside quoted strings
		start := 0
		inq := false
		for i := 0; i <= len(l); i++ {
			if i < len(l) && inq && l[i] == '\\' {
				i++ // quoted-pair: the next byte is escaped (RFC 7230 3.2.6)
				continue
			}
			if i < len(l) && l[i] == '"' {
				inq = !inq
			}
			if i == len(l) || (l[i] == ',' && !inq) {
				ok, name := specExtension(l[start:i])
				if !ok {
					wf = false
				} else if name == "permessage-deflate" {
					offered = true
				}
				start = i + 1
			}
		}
		if inq {
			wf = false
		}
	}
	return offered, wf
}

// specExtension parses extension = token *( OWS ";" OWS token [ "=" (token | quoted-string) ] ).
func specExtension(e string) (ok bool, name string) {
	i := 0
	skip := func() {
		for i < len(e) && specIsOWS(e[i]) {
			i++
		}
	}
	tok := func() string {
		j := i
		for i < len(e) && specIsTchar(e[i]) {
			i++
		}
		return e[j:i]
	}
	skip()
	name = tok()
	if name == "" {
		return false, ""
	}
	for {
		skip()
		if i == len(e) {
			return true, name
		}
		if e[i] != ';' {
			return false, ""
		}
		i++
		skip()
		if tok() == "" {
			return false, ""
		}
		skip()
		if i < len(e) && e[i] == '=' {
			i++
			skip()
			if i < len(e) && e[i] == '"' {
				i++
				for i < len(e) && e[i] != '"' {
					if e[i] == '\\' {
						i++
					}
					i++
				}
				if i >= len(e) {
					return false, ""
				}
				i++
			} else if tok() == "" {
				return false, ""
			}
		}
	}
}

// vfH_offer_variants (C15.H2, server side): whether parseExtensions finds a
// permessage-deflate offer, against the reference, on grammar templates with
// symbolic whitespace, parameters and quoted strings, and on short arbitrary
// byte strings.
func vfH_offer_variants() {
	var lines []string
	tier := vfParam("tier", 0)
	mode := vfChoose(2)
	if f := vfParam("mode", -1); f >= 0 {
		mode = f
	}
	if mode == 0 {
		n := vfChoose(vfParam("NB", 4+2*tier))
		lines = []string{vfString(n)}
	} else {
		nl := 1 + vfChoose(vfParam("NL", 1+tier))
		for k := 0; k < nl; k++ {
			line := ""
			nel := 1 + vfChoose(2)
			for i := 0; i < nel; i++ {
				if i > 0 {
					line += vfOWS() + "," + vfOWS()
				}
				switch vfChoose(5) {
				case 0:
					line += "permessage-deflate"
				case 1:
					sp := ""
					if vfChoose(2) == 1 {
						sp = " "
					}
					line += "permessage-deflate" + sp + ";" + sp + "client_max_window_bits"
					switch vfChoose(3) {
					case 1:
						line += "=10"
					case 2:
						line += "=\"" + vfString(vfParam("QL", 1+tier)) + "\""
					}
				case 2:
					line += "x-webkit-deflate-frame"
				case 3:
					line += "permessage-deflat"
				case 4:
					// an escaped quote inside a quoted parameter must not end it
					line += "foo; x=\"a\\\", permessage-deflate, b=\\\"" + vfString(1) + "\""
				}
			}
			lines = append(lines, line)
		}
	}
	for _, l := range lines {
		for i := 0; i < len(l); i++ {
			vfAssume(vfAnd(l[i] != '\r', l[i] != '\n'))
		}
	}
	exts := parseExtensions(http.Header{"Sec-Websocket-Extensions": lines})
	got := false
	for _, ext := range exts {
		if ext[""] == "permessage-deflate" {
			got = true
		}
	}
	offered, wf := specOffersPMD(lines)
	if wf {
		vfAssert(got == offered, "c15-offer-recognised-iff-present")
	}
	if got {
		// never invents an offer: some element starts with the extension name
		vfAssert(vfAnyHasPrefixToken(lines, "permessage-deflate"), "c15-offer-not-invented")
	}
	vfReach("offer-variants-end")
}

func vfAnyHasPrefixToken(lines []string, name string) bool {
	for _, l := range lines {
		for i := 0; i+len(name) <= len(l); i++ {
			if l[i:i+len(name)] == name {
				return true
			}
		}
	}
	return false
}

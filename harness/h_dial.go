//go:build verif

package websocket

import (
	"bufio"
	"bytes"
	"context"
	"crypto/rand"
	"crypto/tls"
	"io"
	"net"
	"net/http"
	"net/url"
	"strings"
	"time"
)

// vfStatusLine builds the text after "HTTP/1.1 " of a status line: three
// digits (symbolic), optionally a space and a short symbolic reason phrase.
func vfStatusLine() (status string, code int) {
	d := vfBytes(3)
	vfAssume(vfAnd(d[0] >= '1', d[0] <= '9'))
	vfAssume(vfAnd(d[1] >= '0', d[1] <= '9'))
	vfAssume(vfAnd(d[2] >= '0', d[2] <= '9'))
	code = int(d[0]-'0')*100 + int(d[1]-'0')*10 + int(d[2]-'0')
	status = string(d)
	switch vfChoose(3) {
	case 1:
		status += " "
	case 2:
		r := vfString(2)
		for i := 0; i < len(r); i++ {
			vfAssume(vfAnd(vfAnd(r[i] != '\r', r[i] != '\n'), vfAnd(r[i] >= 0x20, r[i] < 0x7f)))
		}
		status += " " + r
	}
	return status, code
}

// vfH_connect_reply (C07.H3 / C16 / C18): the HTTP CONNECT proxy dialer fed an
// arbitrary reply status line: no panic; non-200 => error and the connection
// to the proxy closed; 200 => the connection returned open; exactly one
// CONNECT for the requested host:port, Proxy-Authorization exactly when the
// proxy URL carries a password.
func vfH_connect_reply() {
	vfInit()
	vfReqLog = nil
	vfRespQueue = nil
	status, code := vfStatusLine()
	head := []byte("HTTP/1.1 " + status + "\r\n\r\n")
	tc := vfNewConn(head)
	tc.onWrite = func(p []byte) {
		if !vfSymbolic() {
			// native replay: read the real serialised request back with an independent parser
			if rq, perr := http.ReadRequest(bufio.NewReader(bytes.NewReader(p))); perr == nil {
				vfReqLog = append(vfReqLog, vfReqRec{req: rq})
			}
		}
	}
	vfRespQueue = append(vfRespQueue, &vfRespSpec{status: status, statusCode: code, header: http.Header{}, headLen: len(head)})
	purl := &url.URL{Scheme: "http", Host: "proxy.example:3128"}
	cred := vfChoose(3)
	switch cred {
	case 1:
		purl.User = vfUserOnly
	case 2:
		purl.User = vfUserPw
	}
	dialed := ""
	hpd := &httpProxyDialer{proxyURL: purl, forwardDial: func(ctx context.Context, network, addr string) (net.Conn, error) {
		dialed = addr
		return tc, nil
	}}
	fault := vfChoose(3)
	vfReqWriteFail = 0
	switch fault {
	case 1:
		vfReqWriteFail = 1 // writing the CONNECT request fails
	case 2:
		tc.wfailAt, tc.wfault = 0, 1 // the transport fails on the first write
	}
	vfUnwind(64)
	conn, err := hpd.DialContext(&vfCtx{}, "tcp", "backend.example:443")
	vfReqWriteFail = 0
	if fault > 0 {
		vfAssert(err != nil && conn == nil, "c16-connect-write-failure-fails-the-dial")
		vfAssert(tc.closed >= 1, "c16-closed-on-connect-write-failure")
		vfReach("connect-reply-end")
		return
	}
	vfAssert(dialed == "proxy.example:3128", "c18-first-hop-is-the-proxy")
	vfAssert(len(vfReqLog) == 1, "c18-exactly-one-connect")
	rq := vfReqLog[0].req
	vfAssert(rq.Method == "CONNECT" && rq.Host == "backend.example:443", "c18-connect-target-is-backend-hostport")
	if vfSymbolic() {
		vfAssert(rq.URL.Opaque == "backend.example:443", "c18-connect-target-is-backend-hostport")
	}
	auth := rq.Header["Proxy-Authorization"]
	vfAssert((len(auth) == 1) == (cred == 2), "c18-proxy-authorization-iff-password")
	if code == 200 {
		vfAssert(err == nil && conn == net.Conn(tc), "c18-200-yields-the-tunnel")
		vfAssert(tc.closed == 0, "c16-open-on-success")
	} else {
		vfAssert(err != nil && conn == nil, "c18-non-200-aborts")
		vfAssert(tc.closed >= 1, "c16-closed-on-proxy-refusal")
		vfAssert(tc.nWrites() == 1, "c18-nothing-sent-after-refusal")
	}
	vfReach("connect-reply-end")
}

type vfDialIn struct {
	scheme, host, path, query   string
	userinfo                    bool
	urlStr                      string
	hdr                         http.Header
	hostOverride                string
	d                           *Dialer
	ctx                         *vfCtx
	proxy                       int // 0 none, 1 http, 2 https
	proxyCred                   int
	hookCtx, hookPlain, hookTLS bool
	dialFail                    bool
	// reply
	code         int
	status       string
	upg, con     []string
	accept       int // 0 correct, 1 wrong (symbolic), 2 missing
	ext          []string
	proto        string
	body         int
	frames       bool
	bigFrames    bool
	second       bool
	certName     string // "" = valid for the name the client must verify
	certTrusted  bool
	nilTLSConfig bool
}

// vfHeadBytes renders a response head a real HTTP/1.1 parser reads back as the
// same status / header values (header lines in a fixed order).
func vfHeadBytes(status string, order []string, h http.Header) []byte {
	out := []byte("HTTP/1.1 " + status + "\r\n")
	for _, k := range order {
		for _, v := range h[k] {
			out = append(out, []byte(k+": "+v+"\r\n")...)
		}
	}
	return append(out, '\r', '\n')
}

// vfH_dial_logic (C14; client halves of C15, C16, C17; C18 call traces; C07
// reply robustness): Dialer.DialContext executed with net/url, net/http,
// crypto/tls and the dial functions modelled at object / call-trace level, on
// configurations and replies one (thorough: two) dimension(s) away from a
// plain successful ws:// dial.
func vfH_dial_logic() {
	vfInit()
	vfClockMaxStep(int64(writeWait))
	vfReqLog, vfRespQueue, vfTLSLog, vfTLSConns = nil, nil, nil, nil
	vfTLSPeers, vfReqWriteFail, vfDefaultDialerUsed, vfDefaultDialConn = nil, 0, 0, nil
	vfPlainSeen = false
	vfBodyChunk = 0
	vfBodyConn = nil
	kr := &vfRand{}
	rand.Reader = kr
	in := vfDialIn{scheme: "ws", host: "example.com", path: "/chat", d: &Dialer{}, ctx: &vfCtx{}, code: 101, status: "101 Switching Protocols",
		upg: []string{"websocket"}, con: []string{"Upgrade"}, hookCtx: true, certTrusted: true}
	var callerHdr http.Header
	faultAt, faultKind := -1, 0
	forbidden := false // the caller tried to set a protocol-owned header
	malformed := false
	tier := vfParam("tier", 0)
	d1 := vfChoose(16)
	if f := vfParam("dim", -1); f >= 0 {
		d1 = f
	}
	d2 := 99
	if tier >= 1 {
		d2 = vfChoose(14)
	}
	if f := vfParam("dim2", -1); f >= 0 {
		d2 = f
	}
	if d2 == d1 {
		d2 = 99 // the same dimension twice is the single-dimension case
	}
	if (d1 == 15 && d2 == 4) || (d1 == 4 && d2 == 15) {
		d2 = 99 // the two-dial program scripts no proxy replies for its first dial
	}
	badScheme := ""
	if d2 != 99 && d1 != 10 && d2 != 10 {
		// two dimensions varied (neither of them the Accept value): the random key
		// is a fixed one (every key is covered by the single-dimension tier)
		kr.fixed = true
	}
	for _, dim := range []int{d1, d2} {
		switch dim {
		case 0: // URL shapes
			switch vfChoose(5) {
			case 0:
				in.host = "example.com:9000"
			case 1:
				in.host = "[2001:db8::1]"
			case 2:
				in.host = "[2001:db8::1]:9000"
			case 3:
				in.query = "a=1&b=2"
			case 4:
				in.path = ""
			}
		case 1: // scheme / userinfo
			switch vfChoose(3) {
			case 0:
				badScheme = "http"
				malformed = true
			case 1:
				badScheme = vfString(2)
				vfAssume(!vfStrEq(badScheme, "ws"))
				for i := 0; i < 2; i++ {
					vfAssume(vfAnd(badScheme[i] >= 'a', badScheme[i] <= 'z'))
				}
				malformed = true
			case 2:
				in.userinfo = true
				malformed = true
			}
		case 2: // wss
			in.scheme = "wss"
			in.d.TLSClientConfig = &tls.Config{}
			switch vfChoose(5) {
			case 1:
				in.d.TLSClientConfig.ServerName = "override.example"
			case 2:
				in.d.TLSClientConfig.InsecureSkipVerify = true
			case 3:
				in.hookTLS = true
			case 4:
				in.d.TLSClientConfig = nil // library default configuration (system roots: engine only)
				in.nilTLSConfig = true
			}
			// the backend's certificate: valid for the name to verify / for another host / untrusted
			switch vfChoose(3) {
			case 1:
				in.certName = "other.example"
			case 2:
				in.certTrusted = false
			}
		case 3: // dial hooks
			switch vfChoose(3) {
			case 0:
				in.hookCtx, in.hookPlain = false, true
			case 1:
				in.hookCtx, in.hookPlain = true, true
			case 2:
				in.hookCtx = false // library default dialer
			}
		case 4: // proxy
			if f := vfParam("proxy", 0); f > 0 {
				in.proxy = f
			} else {
				in.proxy = 1 + vfChoose(3) // http, https, socks5
			}
			in.proxyCred = vfChoose(3)
			if vfChoose(2) == 1 {
				in.scheme = "wss"
			}
			if in.proxy == 2 || in.scheme == "wss" {
				in.d.TLSClientConfig = &tls.Config{}
				if in.scheme == "wss" && vfChoose(2) == 1 {
					in.certName = "other.example"
				}
			}
		case 5: // Dialer options
			switch vfChoose(6) {
			case 0:
				in.d.Subprotocols = []string{"chat", "superchat"}
			case 1:
				in.d.EnableCompression = true
			case 2:
				in.d.HandshakeTimeout = 5 * time.Second
			case 3:
				in.ctx.hasDeadline = true
				in.ctx.deadline = time.Now().Add(time.Duration(1+vfChoose(2)) * time.Hour)
			case 4: // both, the handshake timeout is the earlier one
				in.d.HandshakeTimeout = 5 * time.Second
				in.ctx.hasDeadline = true
				in.ctx.deadline = time.Now().Add(time.Hour)
			case 5: // both, the context deadline is the earlier one
				in.d.HandshakeTimeout = 3 * time.Hour
				in.ctx.hasDeadline = true
				in.ctx.deadline = time.Now().Add(time.Hour)
			}
		case 6: // benign caller headers
			if callerHdr == nil {
				callerHdr = http.Header{}
			}
			switch vfChoose(3) {
			case 0:
				callerHdr["Origin"] = []string{"https://example.com"}
				callerHdr["X-Trace"] = []string{vfString(2)}
			case 1:
				callerHdr["Host"] = []string{"virtual.example"}
				in.hostOverride = "virtual.example"
			case 2:
				callerHdr["Sec-Websocket-Protocol"] = []string{"chat"}
			}
		case 7: // protocol-owned caller headers, in three spellings each
			names := []string{"Upgrade", "Connection", "Sec-Websocket-Key", "Sec-Websocket-Version", "Sec-Websocket-Extensions"}
			rfc := []string{"Upgrade", "Connection", "Sec-WebSocket-Key", "Sec-WebSocket-Version", "Sec-WebSocket-Extensions"}
			lower := []string{"upgrade", "connection", "sec-websocket-key", "sec-websocket-version", "sec-websocket-extensions"}
			i := vfChoose(len(names))
			k := [][]string{names, rfc, lower}[vfChoose(3)][i]
			if callerHdr == nil {
				callerHdr = http.Header{}
			}
			callerHdr[k] = []string{"x" + vfString(1)}
			forbidden = true
		case 8: // reply status
			in.status, in.code = vfStatusLine()
		case 9: // reply Upgrade / Connection lines
			switch vfChoose(6) {
			case 0:
				in.upg = []string{vfCaseVariant("websocket")}
			case 1:
				in.upg = nil
			case 2:
				in.upg = []string{"websockets"}
			case 3:
				in.con = []string{"keep-alive, " + vfCaseVariant("upgrade")}
			case 4:
				in.con = nil
			case 5:
				in.con = []string{"close"}
			}
		case 10: // Accept
			in.accept = 1 + vfChoose(2)
		case 11: // reply extensions / subprotocol
			switch vfChoose(5) {
			case 0:
				in.ext = []string{"permessage-deflate; server_no_context_takeover; client_no_context_takeover"}
			case 1:
				in.ext = []string{"permessage-deflate; server_no_context_takeover"}
			case 2:
				in.ext = []string{"permessage-deflate; client_no_context_takeover"}
			case 3:
				in.ext = []string{"foo", "permessage-deflate; client_no_context_takeover; server_no_context_takeover; server_max_window_bits=10"}
			case 4:
				in.proto = "chat"
			}
		case 12: // body of a refused handshake
			in.code, in.status = 403, "403 Forbidden"
			in.body = vfPick([]int{0, 10, 1024, 1500})
			vfBodyChunk = vfPick([]int{0, 7})
		case 13: // transport / hook faults at every operation
			switch vfChoose(3) {
			case 0:
				in.dialFail = true
			case 1:
				vfReqWriteFail = 1
			case 2:
				faultAt = vfChoose(3)
				faultKind = 1 + vfChoose(2)
			}
		case 14: // frames glued to the 101 response
			in.frames = true
			if vfChoose(2) == 1 {
				// a large read buffer and more than 4 KiB arriving with the response
				in.d.ReadBufferSize = 8192
				in.bigFrames = true
			}
		case 15: // a second dial with the same Dialer and TLS configuration
			in.scheme = "wss"
			in.d.TLSClientConfig = &tls.Config{}
			in.second = true
			// the second backend presents a certificate that is valid for the FIRST host
			if vfChoose(2) == 1 {
				in.certName = "first.example"
			}
		}
	}
	if _, both := callerHdr["Sec-Websocket-Protocol"]; both && len(in.d.Subprotocols) > 0 {
		// with Dialer.Subprotocols set the header is owned by the library: a caller value is refused
		forbidden = true
	}
	if badScheme != "" {
		in.scheme = badScheme // whatever another dimension chose for the scheme
	}
	// URL string and what a URL parser makes of it
	in.urlStr = in.scheme + "://"
	var ui *url.Userinfo
	if in.userinfo {
		in.urlStr += "alice:secret@"
		ui = vfUserPw
	}
	in.urlStr += in.host + in.path
	if in.query != "" {
		in.urlStr += "?" + in.query
	}
	vfHintURL(in.urlStr, &vfURLParts{scheme: in.scheme, host: in.host, path: in.path, rawQuery: in.query, user: ui})
	if vfParam("realurl", 1) == 1 {
		// the URL string goes through the real net/url.Parse (executed from its SSA)
		vfUseReal("net/url.Parse")
		vfUseRealPkg("net/url")
	}
	// reply head and transport
	rh := http.Header{}
	order := []string{"Upgrade", "Connection", "Sec-Websocket-Accept", "Sec-Websocket-Extensions", "Sec-Websocket-Protocol"}
	if in.upg != nil {
		rh["Upgrade"] = in.upg
	}
	if in.con != nil {
		rh["Connection"] = in.con
	}
	if in.ext != nil {
		rh["Sec-Websocket-Extensions"] = in.ext
	}
	if in.proto != "" {
		rh["Sec-Websocket-Protocol"] = []string{in.proto}
	}
	// a wrong Accept value, described RELATIVE to the right one so that a witness
	// carries over to the native replay (where SHA-1 is the real function): per
	// character keep it, swap its case if it is a letter, or replace it
	var wrongOp, wrongRepl []byte
	if in.accept == 1 {
		wrongOp, wrongRepl = vfBytes(28), vfBytes(28)
		for i := 0; i < 28; i++ {
			vfAssume(vfAnd(wrongOp[i] <= 2, vfAnd(wrongRepl[i] > 0x20, wrongRepl[i] < 0x7f)))
		}
	}
	mkWrong := func(right string) string {
		out := make([]byte, len(right))
		for i := 0; i < len(right); i++ {
			ch := right[i]
			letter := vfOr(vfAnd(ch >= 'A', ch <= 'Z'), vfAnd(ch >= 'a', ch <= 'z'))
			swapped := byte(vfIte(letter, int(ch^0x20), int(ch)))
			out[i] = byte(vfIte(wrongOp[i] == 0, int(ch), vfIte(wrongOp[i] == 1, int(swapped), int(wrongRepl[i]))))
			// a replacement is a character that differs from the right one by more than case
			vfAssume(vfOr(wrongOp[i] != 2, vfAnd(wrongRepl[i] != ch, wrongRepl[i] != swapped)))
		}
		return string(out)
	}
	// the Accept value depends on the key the dial will generate: filled in by the hook below
	body := vfBytes(in.body)
	gen := &vfGen{fromClient: false}
	if in.frames {
		n1 := 3
		if in.bigFrames {
			n1 = 5000
		}
		gen.message(TextMessage, vfBytes(n1), false, 0, []int{1, -1}, -1, 0, nil)
		gen.message(BinaryMessage, vfBytes(2), false, 0, []int{-1}, -1, 0, nil)
	}
	tc := vfNewConn(nil)
	if faultAt >= 0 {
		tc.wfailAt, tc.wfault = faultAt, faultKind
	}
	ptc := vfNewConn(nil) // connection to the proxy, when there is one
	dials := []string{}
	hookUsed := ""
	var dialedConns []*vfConn
	mkDial := func(name string) func(ctx context.Context, network, addr string) (net.Conn, error) {
		return func(ctx context.Context, network, addr string) (net.Conn, error) {
			dials = append(dials, addr)
			hookUsed = name
			if in.dialFail {
				return nil, vfErrInjected
			}
			dialedConns = append(dialedConns, tc)
			return tc, nil
		}
	}
	if in.hookCtx {
		in.d.NetDialContext = mkDial("ctx")
	}
	if in.hookPlain {
		f := mkDial("plain")
		in.d.NetDial = func(network, addr string) (net.Conn, error) { return f(nil, network, addr) }
	}
	if in.hookTLS {
		in.d.NetDialTLSContext = mkDial("tls")
	}
	if !in.hookCtx && !in.hookPlain {
		vfDefaultDialConn = tc
	}
	var purl *url.URL
	if in.proxy > 0 {
		purl = &url.URL{Scheme: "http", Host: "proxy.example:3128"}
		if in.proxy == 2 {
			purl.Scheme = "https"
			purl.Host = "secure-proxy.example"
		}
		if in.proxy == 3 {
			purl.Scheme = "socks5"
			purl.Host = "socks.example"
		}
		switch in.proxyCred {
		case 1:
			purl.User = vfUserOnly
		case 2:
			purl.User = vfUserPw
		}
		in.d.Proxy = func(*http.Request) (*url.URL, error) { return purl, nil }
		if in.proxy == 3 {
			// the SOCKS5 proxy selects "no authentication" and grants the CONNECT
			vfUseRealPkg("golang.org/x/net/proxy")
			vfSchedBound(0) // x/net's context-watcher goroutine: non-preemptive
			vfUseRealPkg("golang.org/x/net/internal/socks")
			tc.in = append(tc.in, 5, 0, 5, 0, 0, 1, 0, 0, 0, 0, 0, 0)
		} else {
			// the proxy answers the CONNECT with 200
			ph := []byte("HTTP/1.1 200 Connection established\r\n\r\n")
			vfRespQueue = append(vfRespQueue, &vfRespSpec{status: "200 Connection established", statusCode: 200, header: http.Header{}, headLen: len(ph)})
			tc.in = append(tc.in, ph...)
		}
		tc.cut = len(tc.in)
	}
	_ = ptc
	// the server's reply is scripted lazily: its Accept depends on the key in the request
	spec := &vfRespSpec{status: in.status, statusCode: in.code, header: rh, body: body}
	vfRespQueue = append(vfRespQueue, spec)
	scripted := false
	var script func(key string) []byte
	vfOnRequest = func(r *http.Request) {
		if r.Method != "GET" {
			return
		}
		key := ""
		if v := r.Header["Sec-WebSocket-Key"]; len(v) > 0 {
			key = v[0]
		}
		script(key)
	}
	// natively the real Request.Write runs: the scripted server finds the key in the bytes
	tc.onWrite = func(p []byte) {
		if !vfSymbolic() {
			// native replay: the real net/http serialised the request; an
			// independent parser reads it back for the request assertions
			if rq, perr := http.ReadRequest(bufio.NewReader(bytes.NewReader(p))); perr == nil {
				vfReqLog = append(vfReqLog, vfReqRec{req: rq})
			}
		}
		if scripted || len(p) < 4 || string(p[:4]) != "GET " {
			return
		}
		const name = "Sec-WebSocket-Key: "
		s := string(p)
		i := strings.Index(s, name)
		if i < 0 {
			i = strings.Index(strings.ToLower(s), strings.ToLower(name))
		}
		key := ""
		if i >= 0 {
			rest := s[i+len(name):]
			if j := strings.Index(rest, "\r\n"); j >= 0 {
				key = rest[:j]
			}
		}
		script(key)
	}
	nativeTLS := false
	script = func(key string) []byte {
		scripted = true
		switch in.accept {
		case 0:
			rh["Sec-Websocket-Accept"] = []string{specAccept(key)}
		case 1:
			right := specAccept(key)
			wrongAccept := mkWrong(right)
			vfAssume(!vfStrEq(wrongAccept, right))
			rh["Sec-Websocket-Accept"] = []string{wrongAccept}
		}
		head := vfHeadBytes(in.status, order, rh)
		spec.headLen = len(head)
		out := append(append(append([]byte(nil), head...), body...), gen.wire...)
		if vfBodyChunk > 0 && !nativeTLS {
			// the body arrives in a later transport read than the head
			tc.chunkMode = vfChunkScript
			tc.script = append(tc.script, len(head)+vfBodyChunk)
		}
		if !nativeTLS {
			tc.in = append(tc.in, out...)
			tc.cut = len(tc.in)
			vfBodyConn = tc
			tc.strictClose = true
		}
		return out
	}
	vfAllocBound(12000)
	cfgServerName, skipVerify := "", false
	if in.d.TLSClientConfig != nil {
		cfgServerName = in.d.TLSClientConfig.ServerName // as configured by the application
		skipVerify = in.d.TLSClientConfig.InsecureSkipVerify
		vfClientTLSBase(in.d.TLSClientConfig)
	}
	// the name the client has to verify the backend's certificate for
	expectName := vfHostNoPort(in.host)
	if cfgServerName != "" {
		expectName = cfgServerName
	}
	certName := in.certName
	if certName == "" {
		certName = expectName
	}
	tlsByLib := in.scheme == "wss" && !(in.hookTLS && in.proxy == 0)
	tlsOK := !tlsByLib || skipVerify || (in.certTrusted && certName == expectName)
	// an https proxy's certificate is verified for the configured ServerName too
	proxyTLSOK := !(in.proxy == 2 && !in.hookTLS) || skipVerify || cfgServerName == "" || cfgServerName == "secure-proxy.example"
	tlsOK = tlsOK && proxyTLSOK
	// the TLS peers the dial will meet, in order
	var hops []vfHop
	if in.proxy == 2 && !in.hookTLS {
		// (with NetDialTLSContext the application's function does the TLS handshake with the proxy)
		vfTLSPeers = append(vfTLSPeers, vfTLSPeer{certName: "secure-proxy.example", trusted: true})
		hops = append(hops, vfHop{tls: true, name: "secure-proxy.example", trusted: true})
	}
	if in.proxy == 1 || in.proxy == 2 {
		hops = append(hops, vfHop{connect: true})
	}
	if in.proxy == 3 {
		hops = append(hops, vfHop{socks: true})
	}
	if tlsByLib {
		vfTLSPeers = append(vfTLSPeers, vfTLSPeer{certName: certName, trusted: in.certTrusted})
		hops = append(hops, vfHop{tls: true, name: certName, trusted: in.certTrusted})
	}
	usesTLS := (in.proxy == 2 && !in.hookTLS) || tlsByLib
	if !vfSymbolic() && usesTLS && in.d.TLSClientConfig != nil {
		// native replay: a real TLS peer behind a pipe
		nativeTLS = true
		tc.onWrite = nil
		startPeer := func(hs []vfHop, reply func(*http.Request) []byte) {
			cl, sv := net.Pipe()
			tc.pipe = cl
			go vfNativePeer(sv, hs, reply)
		}
		startPeer(hops, func(r *http.Request) []byte { return script(r.Header.Get("Sec-WebSocket-Key")) })
		defer func() {
			if tc.pipe != nil {
				tc.pipe.Close()
			}
		}()
		if in.second {
			vfFirstPeer = func() {
				startPeer([]vfHop{{tls: true, name: "first.example", trusted: true}}, func(*http.Request) []byte { return []byte("garbage\r\n\r\n") })
			}
			vfSecondPeer = func() {
				startPeer(hops, func(r *http.Request) []byte { return script(r.Header.Get("Sec-WebSocket-Key")) })
			}
		}
	}
	if in.second {
		// an earlier dial to another host with the same Dialer: whatever it did to
		// the shared configuration must not leak into the dial under test
		first := "wss://first.example/"
		vfHintURL(first, &vfURLParts{scheme: "wss", host: "first.example", path: "/"})
		saveQ := vfRespQueue
		vfRespQueue = []*vfRespSpec{{err: vfErrBadResponse}} // the first server answers garbage
		hook := vfOnRequest
		vfOnRequest = nil
		saveW := tc.onWrite
		tc.onWrite = nil
		savePeers := vfTLSPeers
		vfTLSPeers = []vfTLSPeer{{certName: "first.example", trusted: true}}
		if vfFirstPeer != nil {
			vfFirstPeer()
		}
		fc, _, _ := in.d.DialContext(&vfCtx{}, first, nil)
		vfTLSPeers = savePeers
		if vfSecondPeer != nil {
			vfSecondPeer()
		}
		vfFirstPeer, vfSecondPeer = nil, nil
		vfAssert(fc == nil, "first-dial-fails-harmlessly") // no reply was scripted for it
		vfRespQueue, vfOnRequest, tc.onWrite = saveQ, hook, saveW
		vfReqLog, vfTLSLog = nil, nil
		dials = nil
		dialedConns = nil
		kr.draws = nil
		tc.ops, tc.closed, tc.in, tc.rpos, tc.cut, tc.rerr, tc.nwops = nil, 0, nil, 0, 0, nil, 0
	}

	timed := in.d.HandshakeTimeout > 0 || in.ctx.hasDeadline
	tc.trackDL = timed
	c, resp, err := in.d.DialContext(in.ctx, in.urlStr, callerHdr)
	tc.trackDL = false

	vfOnRequest = nil
	// ---- verdicts ----
	if malformed {
		vfAssert(c == nil && err != nil, "c14-malformed-url-refused")
		vfAssert(len(dials) == 0 && vfDefaultDialerUsed == 0, "c14-no-network-activity-for-malformed-url")
		vfReach("dial-malformed")
		return
	}
	if forbidden {
		vfAssert(c == nil && err != nil, "c14-protocol-owned-header-not-overridable")
		vfAssert(len(dials) == 0 && vfDefaultDialerUsed == 0, "c14-forbidden-header-refused-before-dialing")
		vfReach("dial-forbidden-header")
		return
	}
	// the WebSocket request, if one was sent
	var wsReq *http.Request
	nconnect := 0
	for _, rr := range vfReqLog {
		if rr.req.Method == "GET" {
			wsReq = rr.req
		}
		if rr.req.Method == "CONNECT" {
			nconnect++
		}
	}
	// (a failing dial hook only matters when a hook is what dials)
	faulted := (in.dialFail && len(dials) > 0) || vfReqWriteFail > 0 || tc.wfailed || !tlsOK
	if nativeTLS && c == nil {
		// native replay: the real TLS peer saw plaintext where a ClientHello was due
		if tc.pipe != nil {
			tc.pipe.Close() // the peer has finished with the connection once this returns an error to it
		}
		time.Sleep(20 * time.Millisecond)
		vfTLSMu.Lock()
		plain := vfPlainSeen
		vfTLSMu.Unlock()
		vfAssert(!plain, "c18-wss-request-only-inside-verified-tls")
	}
	if wsReq != nil && in.scheme == "wss" {
		// C18: the handshake request left only inside a TLS session whose peer
		// certificate was verified for the URL's host (or the configured name)
		vfAssert(tlsOK, "c18-wss-request-only-inside-verified-tls")
	}
	if wsReq != nil {
		// (c) a well-formed opening handshake for the given URL
		vfAssert(wsReq.Method == "GET", "c14-request-method")
		wantScheme := "http"
		if in.scheme == "wss" {
			wantScheme = "https"
		}
		if vfSymbolic() {
			vfAssert(wsReq.URL.Scheme == wantScheme && wsReq.URL.Host == in.host, "c14-request-url-preserved")
		}
		wantPath := in.path
		if !vfSymbolic() && wantPath == "" {
			wantPath = "/" // the request line carries "/" for an empty path
		}
		vfAssert(wsReq.URL.Path == wantPath && wsReq.URL.RawQuery == in.query, "c14-request-url-preserved")
		wantHost := in.host
		if in.hostOverride != "" {
			wantHost = in.hostOverride
		}
		vfAssert(wsReq.Host == wantHost, "c14-request-host")
		h := http.Header{}
		for k, vs := range wsReq.Header {
			if vfSymbolic() {
				h[k] = vs
			} else {
				// the native parser canonicalises names: map them back to the RFC spelling
				switch k {
				case "Sec-Websocket-Key":
					k = "Sec-WebSocket-Key"
				case "Sec-Websocket-Version":
					k = "Sec-WebSocket-Version"
				case "Sec-Websocket-Protocol":
					k = "Sec-WebSocket-Protocol"
				case "Sec-Websocket-Extensions":
					k = "Sec-WebSocket-Extensions"
				}
				h[k] = vs
			}
		}
		vfAssert(len(h["Upgrade"]) == 1 && strings.EqualFold(h["Upgrade"][0], "websocket"), "c14-request-upgrade-header")
		vfAssert(len(h["Connection"]) == 1 && strings.EqualFold(h["Connection"][0], "upgrade"), "c14-request-connection-header")
		vfAssert(len(h["Sec-WebSocket-Version"]) == 1 && h["Sec-WebSocket-Version"][0] == "13", "c14-request-version-13")
		// (b) the key is 16 fresh bytes from the random source, drawn for this call
		vfAssert(len(kr.draws) == 1 && len(kr.draws[0]) == 16, "c14-key-is-16-fresh-random-bytes")
		vfAssert(len(h["Sec-WebSocket-Key"]) == 1 && vfStrEq(h["Sec-WebSocket-Key"][0], specBase64(kr.draws[0])), "c14-request-key-is-this-dials-fresh-key")
		if len(in.d.Subprotocols) > 0 {
			vfAssert(len(h["Sec-WebSocket-Protocol"]) == 1 && strings.ReplaceAll(h["Sec-WebSocket-Protocol"][0], " ", "") == "chat,superchat", "c14-request-subprotocols")
		}
		ext := h["Sec-WebSocket-Extensions"]
		if in.d.EnableCompression {
			vfAssert(len(ext) == 1 && specPMDBoth(ext[0]), "c15-offer-iff-enabled")
		} else {
			vfAssert(len(ext) == 0, "c15-offer-iff-enabled")
		}
		for k, vs := range callerHdr {
			if k == "Host" || k == "Sec-Websocket-Protocol" {
				continue
			}
			vfAssert(len(h[k]) == len(vs) && vfStrEq(h[k][0], vs[0]), "c14-caller-headers-included")
		}
		if !vfSymbolic() {
			delete(h, "User-Agent") // added by net/http's serialiser
		}
		// no protocol-owned header appears under a second spelling
		n := 0
		for k := range h {
			ck := http.CanonicalHeaderKey(k)
			if ck == "Sec-Websocket-Key" || ck == "Sec-Websocket-Version" || ck == "Upgrade" || ck == "Connection" {
				n++
			}
		}
		vfAssert(n == 4, "c14-protocol-owned-headers-once")
	}
	// (a) connect iff the reply proves acceptance of this request
	upgOK := vfListsHave(in.upg, "websocket")
	conOK := vfListsHave(in.con, "upgrade")
	extBoth, extOne := false, false
	for _, l := range in.ext {
		if len(l) >= 18 && l[:18] == "permessage-deflate" {
			s := strings.Contains(l, "server_no_context_takeover")
			cc := strings.Contains(l, "client_no_context_takeover")
			extBoth = s && cc
			extOne = !extBoth
			break
		}
	}
	accepted := in.code == 101 && upgOK && conOK && in.accept == 0
	if c != nil {
		vfAssert(err == nil && resp != nil, "c14-conn-xor-error")
		vfAssert(accepted && !faulted && !extOne, "c14-connects-only-if-reply-proves-acceptance")
		vfAssert(wsReq != nil, "c14-request-sent")
		vfAssert(!c.isServer, "c14-client-role")
		vfAssert((c.newCompressionWriter != nil) == extBoth && (c.newDecompressionReader != nil) == extBoth, "c15-client-compresses-iff-both-parameters-announced")
		vfAssert(vfStrEq(c.Subprotocol(), in.proto), "c14-subprotocol-adopted")
		// C16: open, handshake deadline cleared
		vfAssert(tc.closed == 0, "c16-open-on-success")
		lastDL := -1
		for i, op := range tc.ops {
			if op.kind == vfOpSetDeadline {
				lastDL = i
			}
		}
		vfAssert(lastDL >= 0 && tc.ops[lastDL].t.IsZero(), "c16-no-deadline-left-armed")
		// C17: frames glued to the 101 are delivered as ordinary messages
		if in.frames && !extBoth {
			for _, m := range gen.msgs {
				mt, p, rerr := c.ReadMessage()
				vfAssert(rerr == nil && mt == m.mt, "c17-glued-frames-delivered")
				vfAssert(len(p) == len(m.data) && vfAllEq(p, m.data), "c17-glued-frames-intact")
			}
		}
		vfReach("dial-success")
	} else {
		vfAssert(err != nil, "c14-conn-xor-error")
		if !faulted {
			vfAssert(!accepted || extOne, "c14-accepting-reply-connects")
			if extOne && accepted {
				vfAssert(err != nil, "c15-partial-parameters-refused")
			} else {
				vfAssert(err == ErrBadHandshake, "c14-errbadhandshake-on-negative-reply")
				vfAssert(resp != nil && resp.StatusCode == in.code, "c14-response-returned-with-status")
				vfAssert(len(resp.Header["Upgrade"]) == len(in.upg), "c14-response-headers-returned")
				// up to 1024 body bytes
				got, _ := io.ReadAll(resp.Body)
				wantN := in.body
				if wantN > 1024 {
					wantN = 1024
				}
				vfAssert(len(got) == wantN && vfAllEq(got, body[:wantN]), "c14-up-to-1024-body-bytes")
			}
		}
		// C16: every connection obtained has been closed
		for _, dc := range dialedConns {
			vfAssert(dc.closed >= 1, "c16-closed-on-failure")
		}
		if vfDefaultDialerUsed > 0 && vfDefaultDialConn != nil {
			vfAssert(tc.closed >= 1, "c16-closed-on-failure")
		}
		vfReach("dial-refused")
	}
	// ---- C16: when a deadline applies, every transport operation of the handshake runs under one ----
	if timed && !nativeTLS {
		afterDial := time.Now()
		for _, t := range tc.dlAtOp {
			vfAssert(!t.IsZero(), "c16-every-handshake-transport-op-under-a-deadline")
			if in.ctx.hasDeadline {
				vfAssert(!t.After(in.ctx.deadline), "c16-deadline-no-later-than-context")
			}
			if in.d.HandshakeTimeout > 0 {
				// the timeout started no later than the return of DialContext
				vfAssert(!t.After(afterDial.Add(in.d.HandshakeTimeout)), "c16-deadline-no-later-than-handshake-timeout")
			}
		}
	}
	// ---- C16: when a deadline applies, it is set on the connection before its first Read/Write ----
	if (in.d.HandshakeTimeout > 0 || in.ctx.hasDeadline) && len(tc.ops) > 0 {
		first := -1
		for i, op := range tc.ops {
			if op.kind == vfOpWrite || op.kind == vfOpRead {
				first = i
				break
			}
		}
		dl := -1
		for i, op := range tc.ops {
			if op.kind == vfOpSetDeadline && !op.t.IsZero() {
				dl = i
				break
			}
		}
		if first >= 0 {
			vfAssert(dl >= 0 && dl < first, "c16-deadline-set-before-first-transport-op")
			if in.ctx.hasDeadline {
				vfAssert(!tc.ops[dl].t.After(in.ctx.deadline), "c16-deadline-no-later-than-context")
			}
		}
	}
	// ---- C18: proxy and TLS on every path ----
	if len(dials) > 0 || vfDefaultDialerUsed > 0 {
		wantFirst := vfHostPort(in.host, in.scheme)
		if in.proxy == 1 {
			wantFirst = "proxy.example:3128"
		} else if in.proxy == 2 {
			wantFirst = "secure-proxy.example:443"
		} else if in.proxy == 3 {
			wantFirst = "socks.example:1080"
		}
		if len(dials) > 0 {
			vfAssert(dials[0] == wantFirst, "c18-first-hop-address")
			// the applicable custom dial function
			wantHook := "plain"
			if in.hookCtx {
				wantHook = "ctx"
			}
			firstHTTPS := (in.proxy == 0 && in.scheme == "wss") || in.proxy == 2
			if in.hookTLS && firstHTTPS {
				wantHook = "tls"
			}
			vfAssert(hookUsed == wantHook && len(dials) == 1, "c18-first-hop-uses-applicable-dial-function")
		}
		if in.proxy == 3 && !in.dialFail {
			// SOCKS5: the proxy connection carries the RFC 1928 negotiation for the
			// backend's host and port before anything else
			greet := []byte{5, 1, 0}
			if in.proxyCred > 0 {
				greet = []byte{5, 2, 0, 2}
			}
			want := append(greet, specSocksRequest(vfSocksTargetOf(vfHostPort(in.host, in.scheme)))...)
			w := tc.wire()
			k := len(want)
			if tc.wfailed && len(w) < k {
				k = len(w)
			}
			vfAssert(len(w) >= k && vfAllEq(w[:k], want[:k]), "c18-socks-connect-target-is-backend-hostport")
			vfAssert(nconnect == 0, "c18-no-http-connect-through-socks")
		} else if in.proxy > 0 && !in.dialFail && !proxyTLSOK {
			vfAssert(nconnect == 0, "c18-no-connect-to-an-unverified-proxy")
		} else if in.proxy > 0 && !in.dialFail {
			vfAssert(nconnect == 1, "c18-exactly-one-connect")
			for _, rr := range vfReqLog {
				if rr.req.Method == "CONNECT" {
					vfAssert(rr.req.Host == vfHostPort(in.host, in.scheme), "c18-connect-target-is-backend-hostport")
					vfAssert((len(rr.req.Header["Proxy-Authorization"]) == 1) == (in.proxyCred == 2), "c18-proxy-authorization-iff-password")
				}
			}
		} else {
			vfAssert(nconnect == 0, "c18-no-connect-without-proxy")
		}
		if wsReq != nil && in.scheme == "wss" {
			// the request went out only inside a verified TLS session (unless the
			// application's own TLS dial function is trusted with that)
			if tlsByLib && vfSymbolic() {
				// call trace (engine only: natively the real crypto/tls ran and the
				// verdict above rests on the certificate the peer really presented)
				ok := false
				for _, r := range vfTLSLog {
					verified := r.verified == expectName || r.skipVerify
					if r.handshook && verified && r.serverName == expectName {
						ok = true
					}
				}
				vfAssert(ok, "c18-wss-request-only-inside-verified-tls")
			} else if vfSymbolic() {
				backendTLS := 0
				for _, r := range vfTLSLog {
					if r.serverName == vfHostNoPort(in.host) {
						backendTLS++
					}
				}
				vfAssert(backendTLS == 0, "c18-custom-tls-dialer-is-trusted")
			}
		}
		if wsReq != nil && in.scheme == "ws" && in.proxy != 2 && vfSymbolic() {
			vfAssert(len(vfTLSLog) == 0, "c18-no-tls-for-ws")
		}
	}
}

var vfOnRequest func(r *http.Request)
var vfFirstPeer, vfSecondPeer func()

func vfListsHave(lines []string, value string) bool {
	r := false
	for _, l := range lines {
		r = vfOr(r, specListHas(l, value))
	}
	return r
}

// vfHostPort: host:port with the scheme's default port (reference for C18).
func vfHostPort(host, scheme string) string {
	if i := strings.LastIndex(host, ":"); i >= 0 && i > strings.LastIndex(host, "]") {
		return host
	}
	if scheme == "wss" || scheme == "https" {
		return host + ":443"
	}
	return host + ":80"
}

func vfHostNoPort(host string) string {
	if i := strings.LastIndex(host, ":"); i >= 0 && i > strings.LastIndex(host, "]") {
		return host[:i]
	}
	return host
}

// vfH_dial_reply (C07): the reply dimensions of vfH_dial_logic (status line,
// header lines, Accept, extensions, body) with the no-panic / bounded-allocation
// verdict.
func vfH_dial_reply() {
	vfH_dial_logic()
	vfReach("dial-reply-end")
}

// vfH_negotiate (C15.H1): a Dialer and an Upgrader joined through their header
// maps: the request object the client hands to net/http becomes the server's
// request (keys canonicalised as net/http's server does), the server's 101
// bytes become the client's reply. Either both endpoints compress or neither.
func vfH_negotiate() {
	vfInit()
	vfClockMaxStep(int64(writeWait))
	vfReqLog, vfRespQueue = nil, nil
	rand.Reader = &vfRand{}
	dE := vfChoose(2) == 1
	uE := vfChoose(2) == 1
	d := &Dialer{EnableCompression: dE}
	u := &Upgrader{EnableCompression: uE}
	urlStr := "ws://example.com/x"
	vfHintURL(urlStr, &vfURLParts{scheme: "ws", host: "example.com", path: "/x"})
	ct := vfNewConn(nil) // client's transport
	st := vfNewConn(nil) // server's (hijacked) transport
	d.NetDialContext = func(ctx context.Context, network, addr string) (net.Conn, error) { return ct, nil }
	var sc *Conn
	var serr error
	spec := &vfRespSpec{header: http.Header{}}
	vfRespQueue = append(vfRespQueue, spec)
	vfOnRequest = func(r *http.Request) {
		// the server side: net/http delivers canonical header keys
		sh := http.Header{}
		for k, vs := range r.Header {
			sh[http.CanonicalHeaderKey(k)] = vs
		}
		sr := &http.Request{Method: r.Method, Host: r.Host, Header: sh}
		rw := &vfRW{conn: st, br: bufio.NewReaderSize(st, 4096), bw: bufio.NewWriterSize(st, 4096)}
		sc, serr = u.Upgrade(rw, sr, nil)
		if serr != nil {
			spec.status, spec.statusCode = "400 Bad Request", 400
			head := []byte("HTTP/1.1 400 Bad Request\r\n\r\n")
			spec.headLen = len(head)
			ct.in = append(ct.in, head...)
			ct.cut = len(ct.in)
			return
		}
		head := st.wire()
		lines, ok := specSplitHead(head)
		vfAssert(ok && len(lines) > 0, "c12-101-wellformed-head")
		spec.status, spec.statusCode = lines[0][9:], 101
		for _, l := range lines[1:] {
			i := strings.Index(l, ": ")
			vfAssert(i > 0, "c12-101-wellformed-head")
			k := http.CanonicalHeaderKey(l[:i])
			spec.header[k] = append(spec.header[k], l[i+2:])
		}
		spec.headLen = len(head)
		ct.in = append(ct.in, head...)
		ct.cut = len(ct.in)
	}
	cc, _, cerr := d.DialContext(&vfCtx{}, urlStr, nil)
	vfOnRequest = nil
	vfAssert(cerr == nil && cc != nil && serr == nil && sc != nil, "c15-handshake-succeeds-for-every-setting-pair")
	both := dE && uE
	vfAssert((cc.newCompressionWriter != nil) == both && (cc.newDecompressionReader != nil) == both, "c15-client-compresses-iff-both-enabled")
	vfAssert((sc.newCompressionWriter != nil) == both && (sc.newDecompressionReader != nil) == both, "c15-server-compresses-iff-both-enabled")
	ann := false
	for _, l := range spec.header["Sec-Websocket-Extensions"] {
		if strings.Contains(l, "permessage-deflate") {
			ann = strings.Contains(l, "server_no_context_takeover") && strings.Contains(l, "client_no_context_takeover")
		}
	}
	vfAssert(ann == both, "c15-compression-only-when-101-announces-both-parameters")
	// messages flow in both directions (the client's writes arrive at the server and back)
	nw0 := ct.nWrites()
	data := vfBytes(5)
	orig := append([]byte(nil), data...)
	vfAssert(cc.WriteMessage(TextMessage, data) == nil, "write-accepted")
	var c2s []byte
	for i, op := range ct.ops {
		_ = i
		if op.kind == vfOpWrite {
			c2s = append(c2s, op.data...)
		}
	}
	// skip the request head the client wrote first
	skip := 0
	k := 0
	for _, op := range ct.ops {
		if op.kind == vfOpWrite {
			if k < nw0 {
				skip += len(op.data)
			}
			k++
		}
	}
	st.in = append(st.in, c2s[skip:]...)
	st.cut = len(st.in)
	mt, p, rerr := sc.ReadMessage()
	vfAssert(rerr == nil && mt == TextMessage && len(p) == len(orig) && vfAllEq(p, orig), "c15-client-to-server-message-decodes")
	sw0 := len(st.wire())
	d2 := vfBytes(40)
	o2 := append([]byte(nil), d2...)
	vfAssert(sc.WriteMessage(BinaryMessage, d2) == nil, "write-accepted")
	ct.in = append(ct.in, st.wire()[sw0:]...)
	ct.cut = len(ct.in)
	mt, p, rerr = cc.ReadMessage()
	vfAssert(rerr == nil && mt == BinaryMessage && len(p) == len(o2) && vfAllEq(p, o2), "c15-server-to-client-message-decodes")
	vfReach("negotiate-end")
}

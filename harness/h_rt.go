//go:build verif

package websocket

import (
	"bufio"
	"io"
	"time"
)

// ---- shared write / read programs ----

const (
	vfWPWriteMessage = iota
	vfWPWriterOne
	vfWPWriterSplit
	vfWPWriteString
	vfWPReadFrom
	vfWPPrepared
	vfWPPingBetween
	vfWPImplicitClose
	vfWPJSONClient
	vfNumWP
)

// vfDoWrite sends data as one message of type mt using write program wp.
// k is a split point / chunk size used by the programs that need one.
func vfDoWrite(c *Conn, wp int, mt int, data []byte, k int) error {
	switch wp {
	case vfWPWriteMessage:
		return c.WriteMessage(mt, data)
	case vfWPWriterOne:
		w, err := c.NextWriter(mt)
		if err != nil {
			return err
		}
		if _, err := w.Write(data); err != nil {
			return err
		}
		return w.Close()
	case vfWPWriterSplit:
		w, err := c.NextWriter(mt)
		if err != nil {
			return err
		}
		if k > len(data) {
			k = len(data)
		}
		if _, err := w.Write(data[:k]); err != nil {
			return err
		}
		if _, err := w.Write(data[k:]); err != nil {
			return err
		}
		return w.Close()
	case vfWPWriteString:
		w, err := c.NextWriter(mt)
		if err != nil {
			return err
		}
		if _, err := io.WriteString(w, string(data)); err != nil {
			return err
		}
		return w.Close()
	case vfWPReadFrom:
		w, err := c.NextWriter(mt)
		if err != nil {
			return err
		}
		// this is what io.Copy does when the destination is an io.ReaderFrom
		// the source may return its last bytes together with io.EOF (legal for an io.Reader)
		src := &vfChunkReader{data: data, chunk: k, eofWithData: vfChoose(2) == 1}
		if rf, ok := w.(io.ReaderFrom); ok {
			if _, err := rf.ReadFrom(src); err != nil {
				return err
			}
		} else {
			if _, err := io.Copy(w, src); err != nil {
				return err
			}
		}
		return w.Close()
	case vfWPPrepared:
		// WritePreparedMessage does not close an open writer (only NextWriter
		// does): an application has to finish its open message first
		if c.writer != nil {
			if err := c.writer.Close(); err != nil {
				return err
			}
		}
		pm, err := NewPreparedMessage(mt, data)
		if err != nil {
			return err
		}
		return c.WritePreparedMessage(pm)
	case vfWPPingBetween:
		w, err := c.NextWriter(mt)
		if err != nil {
			return err
		}
		if k > len(data) {
			k = len(data)
		}
		if _, err := w.Write(data[:k]); err != nil {
			return err
		}
		if err := c.WriteControl(PingMessage, []byte{'p', byte(k)}, time.Time{}); err != nil {
			return err
		}
		if _, err := w.Write(data[k:]); err != nil {
			return err
		}
		return w.Close()
	case vfWPImplicitClose:
		w, err := c.NextWriter(mt)
		if err != nil {
			return err
		}
		if _, err := w.Write(data); err != nil {
			return err
		}
		// the next NextWriter (or the harness epilogue) closes it
		return nil
	case vfWPJSONClient:
		// WriteJSON = NextWriter(TextMessage) + an encoder that is an arbitrary
		// io.Writer client: here a sequence of small writes
		w, err := c.NextWriter(mt)
		if err != nil {
			return err
		}
		for i := 0; i < len(data); i += k + 1 {
			j := i + k + 1
			if j > len(data) {
				j = len(data)
			}
			if _, err := w.Write(data[i:j]); err != nil {
				return err
			}
		}
		return w.Close()
	}
	panic("bad write program")
}

const (
	vfRPReadMessage = iota
	vfRPNextReader
	vfRPJoin
	vfNumRP
)

type vfGot struct {
	mt   int
	data []byte
	err  error // terminal error of this message's reader (nil = clean EOF)
}

// vfReadOne reads one message with read program rp and application read
// size a; ok is false if NextReader itself failed (err then holds why).
func vfReadOne(c *Conn, rp int, a int) (g vfGot, ok bool) {
	switch rp {
	case vfRPReadMessage:
		mt, p, err := c.ReadMessage()
		if err != nil && p == nil {
			return vfGot{err: err, mt: mt}, false
		}
		return vfGot{mt: mt, data: p, err: err}, true
	default:
		mt, r, err := c.NextReader()
		if err != nil {
			return vfGot{err: err, mt: mt}, false
		}
		var data []byte
		buf := make([]byte, a)
		for i := 0; ; i++ {
			n, err := r.Read(buf)
			data = append(data, buf[:n]...)
			if err == io.EOF {
				return vfGot{mt: mt, data: data}, true
			}
			if err != nil {
				return vfGot{mt: mt, data: data, err: err}, true
			}
			if i > 4*len(data)+64 {
				vfAssert(false, "reader-makes-progress")
			}
		}
	}
}

func vfPick[T any](opts []T) T {
	return opts[vfChoose(len(opts))]
}

func vfDedup(in []int, max int) []int {
	var out []int
	for _, v := range in {
		if v < 0 || v > max {
			continue
		}
		dup := false
		for _, o := range out {
			if o == v {
				dup = true
			}
		}
		if !dup {
			out = append(out, v)
		}
	}
	return out
}

func vfLens(W int, tier int) []int {
	ls := []int{0, 1, W - 1, W, W + 1, 2 * W, 2*W + 1, 2 * (W + 14), 2*(W+14) + 1, 2*(W+14) + 2}
	max := 64
	if tier >= 1 {
		ls = append(ls, 3*W, 3*W+1, 125, 126, 127, 130)
		max = 300
	}
	return vfDedup(ls, max)
}

// newReaderConn builds the reading endpoint over wire with read buffer size R
// (R < 125 uses a caller-supplied bufio.Reader, as Upgrade does).
func vfReaderConn(tc *vfConn, isServer bool, R int) *Conn {
	if R < 125 {
		return newConn(tc, isServer, 0, 16, nil, bufio.NewReaderSize(tc, R), nil)
	}
	return newConn(tc, isServer, R, 16, nil, nil, nil)
}

type vfSent struct {
	mt   int
	data []byte
	comp bool
}

// vfWriteSide runs M messages through write programs on a fresh writer Conn
// and returns the transport, the Conn and what was sent. wpSet selects the
// write programs allowed.
func vfWriteSide(isServer bool, W int, pool BufferPool, compress bool, M int, lens []int, wps []int) (*vfConn, *Conn, []vfSent, int) {
	return vfWriteSideT(isServer, W, pool, compress, M, lens, wps, false)
}

func vfWriteSideT(isServer bool, W int, pool BufferPool, compress bool, M int, lens []int, wps []int, toggles bool) (*vfConn, *Conn, []vfSent, int) {
	wt := vfNewConn(nil)
	wc := newConn(wt, isServer, 0, W, pool, nil, nil)
	if compress {
		wc.newCompressionWriter = compressNoContextTakeover
	}
	var msgs []vfSent
	npings := 0
	lastWP := 0
	for i := 0; i < M; i++ {
		wp := vfPick(wps)
		n := vfPick(lens)
		mt := 1 + (wp+n+i)%2
		data := vfBytes(n)
		orig := append([]byte(nil), data...)
		k := 0
		switch wp {
		case vfWPWriterSplit, vfWPPingBetween:
			k = vfPick(vfDedup([]int{0, 1, W, W + 1, n - 1}, n))
		case vfWPReadFrom:
			k = vfPick(vfDedup([]int{1, W + 1, n}, n+1))
			if k == 0 {
				k = 1
			}
		case vfWPJSONClient:
			k = vfPick([]int{0, W})
		}
		comp := compress
		if compress && toggles && i > 0 {
			// toggling write compression / level between messages (C15)
			switch vfChoose(3) {
			case 1:
				wc.EnableWriteCompression(false)
			case 2:
				lvl := vfInt()
				vfAssume(lvl >= -2)
				vfAssume(lvl <= 9)
				vfAssert(wc.SetCompressionLevel(lvl) == nil, "level-accepted")
			}
		}
		comp = compress && wc.enableWriteCompression
		err := vfDoWrite(wc, wp, mt, data, k)
		vfAssert(err == nil, "write-accepted")
		if wp == vfWPPingBetween {
			npings++
		}
		msgs = append(msgs, vfSent{mt, orig, comp})
		lastWP = wp
	}
	if lastWP == vfWPImplicitClose {
		// the application closes the last writer by asking for the next one
		w, err := wc.NextWriter(BinaryMessage)
		vfAssert(err == nil, "write-accepted")
		vfAssert(w.Close() == nil, "write-accepted")
		msgs = append(msgs, vfSent{BinaryMessage, nil, wc.newCompressionWriter != nil && wc.enableWriteCompression})
	}
	return wt, wc, msgs, npings
}

// vfJudgeWire is the C02 oracle: the reference decoder accepts the wire and
// the decoded messages are exactly the ones sent.
func vfJudgeWire(wire []byte, fromClient bool, pmce bool, msgs []vfSent, nctl int) specStream {
	s := specDecodeStream(wire, fromClient, pmce)
	vfAssert(s.ok, "wire-wellformed")
	vfAssert(!s.open, "wire-message-finished")
	vfAssert(s.rest == len(wire), "wire-no-trailing-bytes")
	vfAssert(len(s.msgs) == len(msgs), "wire-one-message-per-call")
	for i, m := range s.msgs {
		vfAssert(m.opcode == msgs[i].mt, "wire-opcode")
		vfAssert(m.compressed == msgs[i].comp, "wire-rsv1-iff-compressed")
		payload := m.payload
		if m.compressed {
			out, ok, inModel := specInflateStored(m.payload)
			vfAssert(inModel, "wire-inflate-in-model")
			vfAssert(ok, "wire-inflates")
			payload = out
		}
		vfAssert(len(payload) == len(msgs[i].data), "wire-length")
		vfAssert(vfAllEq(payload, msgs[i].data), "wire-payload")
	}
	vfAssert(len(s.ctls) == nctl, "wire-controls")
	return s
}

// vfReadBack is the C01 oracle: the peer Conn, fed the wire under the given
// read configuration, yields exactly the messages sent.
func vfReadBack(wire []byte, readerIsServer bool, pmce bool, msgs []vfSent, npings int, cfg int) {
	rt := vfNewConn(wire)
	R, rp, a := 125, vfRPReadMessage, 1
	switch cfg {
	case 0:
		rt.chunkMode = vfChunkMax
	case 1:
		rt.chunkMode = vfChunkOne
		R = 16
	case 2:
		rt.chunkMode = vfChunkOne
		rp, a = vfRPNextReader, 3
	case 3:
		rt.chunkMode = vfChunkMax
		rp, a, R = vfRPNextReader, 8, 16
	case 4:
		rt.chunkMode = vfChunkMax
		rp, a = vfRPJoin, 200
	case 5:
		rt.chunkMode = vfChunkScript
		rp, a = vfRPNextReader, 200
		if len(wire) > 1 {
			rt.script = []int{vfPick(vfDedup([]int{1, 2, 3, len(wire) / 2, len(wire) - 1}, len(wire)-1))}
		}
	case 6:
		rt.chunkMode = vfChunkScript
		rp, a = vfRPNextReader, 1
		if len(wire) > 1 {
			rt.script = []int{1 + vfChoose(len(wire)-1)}
		}
	}
	rc := vfReaderConn(rt, readerIsServer, R)
	if pmce {
		rc.newDecompressionReader = decompressNoContextTakeover
	}
	pings := 0
	rc.SetPingHandler(func(string) error { pings++; return nil })
	if rp == vfRPJoin {
		r := JoinMessages(rc, "")
		var all []byte
		buf := make([]byte, a)
		for i := 0; ; i++ {
			n, err := r.Read(buf)
			all = append(all, buf[:n]...)
			if err != nil {
				vfAssert(IsCloseError(err, CloseAbnormalClosure), "join-ends-at-stream-end")
				break
			}
			vfAssert(i < 4*len(wire)+64, "reader-makes-progress")
		}
		var want []byte
		for _, m := range msgs {
			want = append(want, m.data...)
		}
		vfAssert(len(all) == len(want), "rt-join-length")
		vfAssert(vfAllEq(all, want), "rt-join-payload")
	} else {
		for i := range msgs {
			g, ok := vfReadOne(rc, rp, a)
			vfAssert(ok, "rt-message-arrives")
			vfAssert(g.err == nil, "rt-clean-eof")
			vfAssert(g.mt == msgs[i].mt, "rt-type")
			vfAssert(len(g.data) == len(msgs[i].data), "rt-length")
			vfAssert(vfAllEq(g.data, msgs[i].data), "rt-payload")
		}
		_, _, err := rc.NextReader()
		vfAssert(err != nil, "rt-exactly-once")
	}
	vfAssert(pings == npings, "rt-pings-delivered")
}

var vfAllWPs = []int{vfWPWriteMessage, vfWPWriterOne, vfWPWriterSplit, vfWPWriteString, vfWPReadFrom, vfWPPrepared, vfWPPingBetween, vfWPImplicitClose, vfWPJSONClient}

// vfH_rt_e2e (C01, also feeds C02/C15/C20): M messages through every write
// program, judged on the wire by the reference decoder, then read back by a
// peer Conn of the opposite role under several read configurations.
func vfH_rt_e2e() {
	vfInit()
	tier := vfParam("tier", 0)
	M := vfParam("M", 1)
	isServer := vfChoose(2) == 1
	W := vfPick([]int{1, 8})
	compress := vfChoose(2) == 1
	var pool BufferPool
	var vp *vfPool
	if W == 8 {
		vp = &vfPool{reuse: true}
		pool = vp
	}
	lens := vfLens(W, tier)
	wps := vfAllWPs
	if M > 1 {
		lens = vfDedup([]int{0, 1, W + 1, 2*(W+14) + 1}, 64)
		wps = []int{vfWPWriteMessage, vfWPWriterSplit, vfWPReadFrom, vfWPPrepared, vfWPImplicitClose}
	}
	if compress {
		vfFlateEmit = vfPick([]int{0, 3, 5})
	}
	wt, wc, msgs, npings := vfWriteSide(isServer, W, pool, compress, M, lens, wps)
	wire := wt.wire()
	vfJudgeWire(wire, !isServer, compress, msgs, npings)
	if vp != nil {
		vfAssert(vp.gets == vp.puts, "pool-balanced")
		vfAssert(wc.writeBuf == nil, "pool-none-held")
	}
	ncfg := 5
	if M > 1 {
		ncfg = 3
	}
	vfReadBack(wire, !isServer, compress, msgs, npings, vfChoose(ncfg))
	vfReach("rt-e2e-end")
}

// vfH_rt_chunk (C01/C03): two messages (the first with a ping between its
// fragments), every split point of the stream between two transport reads.
func vfH_rt_chunk() {
	vfInit()
	isServer := vfChoose(2) == 1
	W := 3
	compress := vfChoose(2) == 1
	wt := vfNewConn(nil)
	wc := newConn(wt, isServer, 0, W, nil, nil, nil)
	if compress {
		wc.newCompressionWriter = compressNoContextTakeover
	}
	n1 := vfPick([]int{2, 7})
	d1 := vfBytes(n1)
	o1 := append([]byte(nil), d1...)
	vfAssert(vfDoWrite(wc, vfWPPingBetween, TextMessage, d1, vfPick([]int{0, 1, n1 - 1})) == nil, "write-accepted")
	n2 := vfPick([]int{0, 5})
	d2 := vfBytes(n2)
	o2 := append([]byte(nil), d2...)
	vfAssert(vfDoWrite(wc, vfWPWriteMessage, BinaryMessage, d2, 0) == nil, "write-accepted")
	msgs := []vfSent{{TextMessage, o1, compress}, {BinaryMessage, o2, compress}}
	wire := wt.wire()
	vfReadBack(wire, !isServer, compress, msgs, 1, 6)
	vfReach("rt-chunk-end")
}

// vfH_compress_toggle (C15/C01): EnableWriteCompression / SetCompressionLevel
// (any valid level, symbolic) toggled between messages never makes the output
// undecodable; RSV1 tracks the setting; invalid levels are refused.
func vfH_compress_toggle() {
	vfInit()
	isServer := vfChoose(2) == 1
	W := 8
	vfFlateEmit = vfPick([]int{0, 4})
	wt := vfNewConn(nil)
	wc := newConn(wt, isServer, 0, W, nil, nil, nil)
	wc.newCompressionWriter = compressNoContextTakeover
	var msgs []vfSent
	send := func(n int) {
		wp := vfPick([]int{vfWPWriteMessage, vfWPPrepared})
		data := vfBytes(n)
		orig := append([]byte(nil), data...)
		comp := wc.enableWriteCompression
		vfAssert(vfDoWrite(wc, wp, BinaryMessage, data, 0) == nil, "write-accepted")
		msgs = append(msgs, vfSent{BinaryMessage, orig, comp})
	}
	send(3)
	switch vfChoose(4) {
	case 1:
		wc.EnableWriteCompression(false)
	case 2:
		lvl := vfInt()
		err := wc.SetCompressionLevel(lvl)
		vfAssert((err == nil) == (lvl >= -2 && lvl <= 9), "level-accepted-iff-valid")
		if err != nil {
			vfAssert(wc.compressionLevel == defaultCompressionLevel, "invalid-level-ignored")
		}
	case 3:
		wc.EnableWriteCompression(false)
		wc.EnableWriteCompression(true)
	}
	send(2*(W+14) + 1)
	switch vfChoose(3) {
	case 1:
		wc.EnableWriteCompression(false)
	case 2:
		wc.EnableWriteCompression(true)
	}
	send(1)
	wire := wt.wire()
	vfJudgeWire(wire, !isServer, true, msgs, 0)
	vfReadBack(wire, !isServer, true, msgs, 0, vfChoose(2))
	vfReach("toggle-end")
}

// vfH_json_rt (C01/C03: the WriteJSON and ReadJSON programs): the encoder is an
// arbitrary io.Writer client, the decoder an arbitrary io.Reader client; the
// bytes the encoder wrote arrive as one text message and are exactly what the
// decoder is given.
func vfH_json_rt() {
	vfInit()
	isServer := vfChoose(2) == 1
	W := vfPick([]int{2, 8})
	compress := vfChoose(2) == 1
	vfJSONPieces = vfChoose(3)
	wt := vfNewConn(nil)
	wc := newConn(wt, isServer, 0, W, nil, nil, nil)
	if compress {
		wc.newCompressionWriter = compressNoContextTakeover
	}
	val := "value"
	vfAssert(wc.WriteJSON(val) == nil, "write-accepted")
	var want []byte
	if vfSymbolic() {
		want = vfJSONWritten
	} else {
		want = []byte("\"value\"\n") // what encoding/json writes for the value
	}
	wire := wt.wire()
	vfJudgeWire(wire, !isServer, compress, []vfSent{{TextMessage, want, compress}}, 0)
	rt := vfNewConn(wire)
	if vfChoose(2) == 1 {
		rt.chunkMode = vfChunkOne
	}
	rc := vfReaderConn(rt, !isServer, 125)
	if compress {
		rc.newDecompressionReader = decompressNoContextTakeover
	}
	var got string
	err := rc.ReadJSON(&got)
	vfAssert(err == nil, "rt-message-arrives")
	if vfSymbolic() {
		vfAssert(len(vfJSONRead) == len(want) && vfAllEq(vfJSONRead, want), "rt-payload")
	} else {
		vfAssert(got == val, "rt-payload")
	}
	// a second ReadJSON finds no message: an error, never a silent empty value
	err = rc.ReadJSON(&got)
	vfAssert(err != nil, "rt-exactly-once")
	vfReach("json-rt-end")
}

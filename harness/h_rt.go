//go:build verif

package websocket

import (
	"bufio"
	"io"
	"time"
)

// ---- shared write / read programs ----

const (
	vfWPWriteMessage = iota
	vfWPWriterOne
	vfWPWriterSplit
	vfWPWriteString
	vfWPReadFrom
	vfWPPrepared
	vfWPPingBetween
	vfWPImplicitClose
	vfWPJSONClient
	vfNumWP
)

// vfDoWrite sends data as one message of type mt using write program wp.
// k is a split point / chunk size used by the programs that need one.
func vfDoWrite(c *Conn, wp int, mt int, data []byte, k int) error {
	switch wp {
	case vfWPWriteMessage:
		return c.WriteMessage(mt, data)
	case vfWPWriterOne:
		w, err := c.NextWriter(mt)
		if err != nil {
			return err
		}
		if _, err := w.Write(data); err != nil {
			return err
		}
		return w.Close()
	case vfWPWriterSplit:
		w, err := c.NextWriter(mt)
		if err != nil {
			return err
		}
		if k > len(data) {
			k = len(data)
		}
		if _, err := w.Write(data[:k]); err != nil {
			return err
		}
		if _, err := w.Write(data[k:]); err != nil {
			return err
		}
		return w.Close()
	case vfWPWriteString:
		w, err := c.NextWriter(mt)
		if err != nil {
			return err
		}
		if _, err := io.WriteString(w, string(data)); err != nil {
			return err
		}
		return w.Close()
	case vfWPReadFrom:
		w, err := c.NextWriter(mt)
		if err != nil {
			return err
		}
		// this is what io.Copy does when the destination is an io.ReaderFrom
		if rf, ok := w.(io.ReaderFrom); ok {
			if _, err := rf.ReadFrom(&vfChunkReader{data: data, chunk: k}); err != nil {
				return err
			}
		} else {
			if _, err := io.Copy(w, &vfChunkReader{data: data, chunk: k}); err != nil {
				return err
			}
		}
		return w.Close()
	case vfWPPrepared:
		pm, err := NewPreparedMessage(mt, data)
		if err != nil {
			return err
		}
		return c.WritePreparedMessage(pm)
	case vfWPPingBetween:
		w, err := c.NextWriter(mt)
		if err != nil {
			return err
		}
		if k > len(data) {
			k = len(data)
		}
		if _, err := w.Write(data[:k]); err != nil {
			return err
		}
		if err := c.WriteControl(PingMessage, []byte{'p', byte(k)}, time.Time{}); err != nil {
			return err
		}
		if _, err := w.Write(data[k:]); err != nil {
			return err
		}
		return w.Close()
	case vfWPImplicitClose:
		w, err := c.NextWriter(mt)
		if err != nil {
			return err
		}
		if _, err := w.Write(data); err != nil {
			return err
		}
		// the next NextWriter (or the harness epilogue) closes it
		return nil
	case vfWPJSONClient:
		// WriteJSON = NextWriter(TextMessage) + an encoder that is an arbitrary
		// io.Writer client: here a sequence of small writes
		w, err := c.NextWriter(mt)
		if err != nil {
			return err
		}
		for i := 0; i < len(data); i += k + 1 {
			j := i + k + 1
			if j > len(data) {
				j = len(data)
			}
			if _, err := w.Write(data[i:j]); err != nil {
				return err
			}
		}
		return w.Close()
	}
	panic("bad write program")
}

const (
	vfRPReadMessage = iota
	vfRPNextReader
	vfRPJoin
	vfNumRP
)

type vfGot struct {
	mt   int
	data []byte
	err  error // terminal error of this message's reader (nil = clean EOF)
}

// vfReadOne reads one message with read program rp and application read
// size a; ok is false if NextReader itself failed (err then holds why).
func vfReadOne(c *Conn, rp int, a int) (g vfGot, ok bool) {
	switch rp {
	case vfRPReadMessage:
		mt, p, err := c.ReadMessage()
		if err != nil && p == nil {
			return vfGot{err: err, mt: mt}, false
		}
		return vfGot{mt: mt, data: p, err: err}, true
	default:
		mt, r, err := c.NextReader()
		if err != nil {
			return vfGot{err: err, mt: mt}, false
		}
		var data []byte
		buf := make([]byte, a)
		for i := 0; ; i++ {
			n, err := r.Read(buf)
			data = append(data, buf[:n]...)
			if err == io.EOF {
				return vfGot{mt: mt, data: data}, true
			}
			if err != nil {
				return vfGot{mt: mt, data: data, err: err}, true
			}
			if i > 4*len(data)+64 {
				vfAssert(false, "reader-makes-progress")
			}
		}
	}
}

func vfPick(opts []int) int {
	return opts[vfChoose(len(opts))]
}

func vfDedup(in []int, max int) []int {
	var out []int
	for _, v := range in {
		if v < 0 || v > max {
			continue
		}
		dup := false
		for _, o := range out {
			if o == v {
				dup = true
			}
		}
		if !dup {
			out = append(out, v)
		}
	}
	return out
}

func vfLens(W int, tier int) []int {
	ls := []int{0, 1, W - 1, W, W + 1, 2 * W, 2*W + 1, 2 * (W + 14), 2*(W+14) + 1, 2*(W+14) + 2}
	max := 64
	if tier >= 1 {
		ls = append(ls, 3*W, 3*W+1, 125, 126, 127, 130)
		max = 300
	}
	return vfDedup(ls, max)
}

// newReaderConn builds the reading endpoint over wire with read buffer size R
// (R < 125 uses a caller-supplied bufio.Reader, as Upgrade does).
func vfReaderConn(tc *vfConn, isServer bool, R int) *Conn {
	if R < 125 {
		return newConn(tc, isServer, 0, 16, nil, bufio.NewReaderSize(tc, R), nil)
	}
	return newConn(tc, isServer, R, 16, nil, nil, nil)
}

// vfH_rt_e2e: C01/C02 end to end: M messages written by any write program,
// decoded by the reference decoder (C02) and read back by the peer Conn (C01).
func vfH_rt_e2e() {
	vfInit()
	tier := vfParam("tier", 0)
	M := vfParam("M", 1)
	isServer := vfChoose(2) == 1
	W := vfPick([]int{1, 3, 8})
	usePool := vfChoose(2) == 1
	var pool BufferPool
	var vp *vfPool
	if usePool {
		vp = &vfPool{reuse: true}
		pool = vp
	}
	wt := vfNewConn(nil)
	wc := newConn(wt, isServer, 0, W, pool, nil, nil)

	type sent struct {
		mt   int
		data []byte
	}
	var msgs []sent
	lens := vfLens(W, tier)
	npings := 0
	var lastWP int
	for i := 0; i < M; i++ {
		mt := 1 + vfChoose(2)
		n := vfPick(lens)
		data := vfBytes(n)
		orig := append([]byte(nil), data...)
		wp := vfChoose(vfNumWP)
		k := 0
		switch wp {
		case vfWPWriterSplit, vfWPPingBetween:
			k = vfPick(vfDedup([]int{0, 1, W - 1, W, W + 1, n - 1, n}, n))
		case vfWPReadFrom:
			k = vfPick(vfDedup([]int{1, W, W + 1, n}, n+1))
			if k == 0 {
				k = 1
			}
		case vfWPJSONClient:
			k = vfPick([]int{0, W})
		}
		err := vfDoWrite(wc, wp, mt, data, k)
		vfAssert(err == nil, "write-accepted")
		if wp == vfWPPingBetween {
			npings++
		}
		msgs = append(msgs, sent{mt, orig})
		lastWP = wp
	}
	if lastWP == vfWPImplicitClose {
		// close the last writer the way an application would have to
		w, err := wc.NextWriter(BinaryMessage)
		vfAssert(err == nil, "write-accepted")
		vfAssert(w.Close() == nil, "write-accepted")
		msgs = append(msgs, sent{BinaryMessage, nil})
	}
	wire := wt.wire()

	// ---- C02: judge the wire with the reference decoder ----
	s := specDecodeStream(wire, !isServer, false)
	vfAssert(s.ok, "wire-wellformed")
	vfAssert(!s.open, "wire-message-finished")
	vfAssert(len(s.msgs) == len(msgs), "wire-one-message-per-call")
	for i, m := range s.msgs {
		vfAssert(m.opcode == msgs[i].mt, "wire-opcode")
		vfAssert(!m.compressed, "wire-rsv1-clear")
		vfAssert(len(m.payload) == len(msgs[i].data), "wire-length")
		vfAssert(vfAllEq(m.payload, msgs[i].data), "wire-payload")
	}
	vfAssert(len(s.ctls) == npings, "wire-controls")
	if usePool {
		vfAssert(vp.gets == vp.puts, "pool-balanced")
		vfAssert(wc.writeBuf == nil, "pool-none-held")
	}

	// ---- C01: read back through the peer ----
	R := vfPick([]int{125, 16})
	rt := vfNewConn(wire)
	switch vfChoose(3) {
	case 0:
		rt.chunkMode = vfChunkMax
	case 1:
		rt.chunkMode = vfChunkOne
	case 2:
		rt.chunkMode = vfChunkScript
		if len(wire) > 1 {
			rt.script = []int{1 + vfChoose(len(wire)-1)}
		}
	}
	rc := vfReaderConn(rt, !isServer, R)
	pings := 0
	rc.SetPingHandler(func(string) error { pings++; return nil })
	rp := vfChoose(vfNumRP)
	a := vfPick([]int{1, 3, 8, 200})
	if rp == vfRPJoin {
		r := JoinMessages(rc, "")
		var all []byte
		buf := make([]byte, a)
		for i := 0; ; i++ {
			n, err := r.Read(buf)
			all = append(all, buf[:n]...)
			if err != nil {
				vfAssert(IsCloseError(err, CloseAbnormalClosure) || err == io.EOF, "join-ends-at-stream-end")
				break
			}
			vfAssert(i < 4*len(wire)+64, "reader-makes-progress")
		}
		var want []byte
		for _, m := range msgs {
			want = append(want, m.data...)
		}
		vfAssert(len(all) == len(want), "rt-join-length")
		vfAssert(vfAllEq(all, want), "rt-join-payload")
	} else {
		for i := range msgs {
			g, ok := vfReadOne(rc, rp, a)
			vfAssert(ok, "rt-message-arrives")
			vfAssert(g.err == nil, "rt-clean-eof")
			vfAssert(g.mt == msgs[i].mt, "rt-type")
			vfAssert(len(g.data) == len(msgs[i].data), "rt-length")
			vfAssert(vfAllEq(g.data, msgs[i].data), "rt-payload")
		}
		_, _, err := rc.NextReader()
		vfAssert(err != nil, "rt-exactly-once")
	}
	vfAssert(pings == npings, "rt-pings-delivered")
	vfReach("rt-e2e-end")
}

//go:build verif

package websocket

type dbgT struct {
	a int
	p []byte
}

func dbgMk(x int) (r dbgT) {
	var cur dbgT
	var out []dbgT
	cur = dbgT{a: x}
	cur.p = append(cur.p, 1)
	out = append(out, cur)
	cur = dbgT{}
	vfAssert(out[0].a == x, "in1")
	return out[0]
}

func vfH_dbg1() {
	r := dbgMk(7)
	vfAssert(r.a == 7, "a7")
	var s specStream
	f := specFrame{opcode: 2, fin: true}
	cur := specMsg{opcode: f.opcode, compressed: f.rsv1, nframes: 1}
	vfAssert(cur.opcode == 2, "c1")
	cur.payload = append(cur.payload, f.payload...)
	cur.keys = append(cur.keys, f.key)
	vfAssert(cur.opcode == 2, "c2")
	s.msgs = append(s.msgs, cur)
	vfAssert(s.msgs[0].opcode == 2, "c3")
	cur = specMsg{}
	vfAssert(s.msgs[0].opcode == 2, "c4")
}

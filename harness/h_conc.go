//go:build verif

package websocket

import (
	"io"
	"time"
)

// vfH_close_sched (C09.H2): a writer sending a two-frame message, a concurrent
// WriteControl(Close), a concurrent WriteControl(Ping) and a reader whose
// default close handler answers a received close, under every schedule within
// the preemption bound (scheduling points: every transport operation, which
// may block arbitrarily long; goroutine start and end; every blocking lock
// acquisition).
func vfH_close_sched() {
	vfInit()
	vfClockMaxStep(int64(writeWait) / 4)
	vfTimersFire(false) // the 1 s best-effort timers of the default handlers do not expire here
	isServer := vfChoose(2) == 1
	W := 4
	gen := &vfGen{fromClient: isServer}
	withReader := vfChoose(2) == 1
	if withReader {
		gen.frame(true, false, CloseMessage, []byte{0x03, 0xe8})
	}
	tc := vfNewConn(gen.wire)
	c := newConn(tc, isServer, 125, W, nil, nil, nil)
	var wErr, kErr, pErr error
	wDone, kDone, pDone := false, false, false
	vfGo(func() {
		// writer: one message in two frames
		w, err := c.NextWriter(BinaryMessage)
		if err == nil {
			_, err = w.Write([]byte("0123456")) // W+3 bytes: one flush inside Write
			if err == nil {
				err = w.Close()
			}
		}
		wErr = err
		wDone = true
	})
	vfGo(func() {
		kErr = c.WriteControl(CloseMessage, FormatCloseMessage(1000, ""), time.Time{})
		kDone = true
	})
	if withReader {
		vfGo(func() {
			c.NextReader()
		})
	} else {
		vfGo(func() {
			pErr = c.WriteControl(PingMessage, []byte("hb"), time.Time{})
			pDone = true
		})
	}
	vfJoin()
	vfAssert(wDone && kDone, "threads-finished")
	_ = pDone
	// judge the transport log
	s := specDecodeStream(tc.wire(), !isServer, false)
	vfAssert(s.ok || s.why == "", "c09-wire-wellformed")
	closeAt := -1
	for i, f := range s.frames {
		if f.opcode == 8 {
			closeAt = i
			break
		}
	}
	vfAssert(closeAt >= 0, "c09-close-frame-written")
	vfAssert(closeAt == len(s.frames)-1, "c09-nothing-after-close-frame")
	// of two racing closes exactly one reaches the wire
	ncl := 0
	for _, f := range s.frames {
		if f.opcode == 8 {
			ncl++
		}
	}
	vfAssert(ncl == 1, "c09-exactly-one-close-on-the-wire")
	// the writer's message is reported sent only if it is completely on the wire
	if wErr == nil {
		vfAssert(len(s.msgs) == 1 && !s.open, "c09-sent-message-precedes-close")
	} else {
		vfAssert(wErr == ErrCloseSent, "c09-errclosesent")
	}
	if !withReader && pErr == nil {
		np := 0
		for _, ct := range s.ctls {
			if ct.opcode == 9 {
				np++
			}
		}
		vfAssert(np == 1, "c09-accepted-ping-is-on-the-wire-before-close")
	}
	if kErr != nil {
		vfAssert(kErr == ErrCloseSent && withReader, "c09-errclosesent")
	}
	vfReach("close-sched-end")
}

var _ = io.EOF

// vfH_conc_frames (C11.H1): one writer goroutine (a message in several frames;
// on a server also a frame written as two buffers), one reader goroutine whose
// default handlers answer a ping, WriteControl callers with deadlines, and
// Close at any moment. On every schedule within the bound: no data race
// (engine's happens-before detector), frames contiguous and the wire
// well-formed, a WriteControl that times out writes nothing and does not
// poison the connection.
func vfH_conc_frames() {
	vfInit()
	vfClockMaxStep(int64(writeWait) / 4)
	isServer := vfChoose(2) == 1
	W := 4
	variant := vfChoose(3)
	if vfParam("preempt", 2) >= 2 && vfParam("tier", 0) == 0 {
		vfAssume(variant != 1) // quick tier: variants 0 and 2
	}
	gen := &vfGen{fromClient: isServer}
	gen.frame(true, false, PingMessage, []byte("r"))
	gen.frame(true, false, TextMessage, []byte("in"))
	tc := vfNewConn(gen.wire)
	c := newConn(tc, isServer, 125, W, nil, nil, nil)
	var wErr, pErr, p2Err error
	var got []byte
	var rErr error
	payload := vfBytes(2*(W+14) + 3)
	orig := append([]byte(nil), payload...)
	vfGo(func() {
		// writer: server => direct path (header and payload as two buffers) then a buffered tail
		w, err := c.NextWriter(BinaryMessage)
		if err == nil {
			_, err = w.Write(payload)
			if err == nil {
				_, err = w.Write([]byte("tail"))
			}
			if err == nil {
				err = w.Close()
			}
		}
		wErr = err
	})
	vfGo(func() {
		// reader: the default ping handler writes a pong under the write lock
		_, r, err := c.NextReader()
		if err == nil {
			got, err = io.ReadAll(r)
		}
		rErr = err
	})
	// the library's own best-effort timers (1 s) do not expire in this harness;
	// the WriteControl caller's deadline does when the case split says so
	vfTimersFire(false)
	fires := false
	pBy := true
	if variant >= 1 {
		fires = vfChoose(2) == 1
	}
	vfGo(func() {
		pDeadline := time.Time{}
		if variant >= 1 {
			if fires {
				pDeadline = time.Now().Add(2 * time.Millisecond) // expires while the writer holds the connection
			} else {
				pDeadline = time.Now().Add(time.Hour)
			}
		}
		vfTimersFire(fires)
		pErr = c.WriteControl(PingMessage, []byte("hb"), pDeadline)
		if variant >= 1 {
			pBy = vfTimerBy(pDeadline)
		}
		vfTimersFire(false)
		if variant == 2 {
			p2Err = c.WriteControl(PongMessage, nil, time.Time{})
		}
	})
	vfJoin()
	vfAssert(wErr == nil, "c11-writer-unaffected")
	vfAssert(rErr == nil && vfAllEq(got, []byte("in")), "c11-reader-unaffected")
	s := specDecodeStream(tc.wire(), !isServer, false)
	vfAssert(s.ok && !s.open, "c11-frames-contiguous-wire-wellformed")
	vfAssert(len(s.msgs) == 1, "c11-one-data-message")
	want := append(append([]byte(nil), orig...), []byte("tail")...)
	vfAssert(len(s.msgs[0].payload) == len(want) && vfAllEq(s.msgs[0].payload, want), "c11-round-trip-payload")
	pongs, pings := 0, 0
	for _, ct := range s.ctls {
		if ct.opcode == 10 && len(ct.payload) == 1 {
			pongs++
		}
		if ct.opcode == 9 {
			pings++
		}
	}
	vfAssert(pongs <= 1, "c11-ping-answered-at-most-once") // the best-effort pong may time out while the writer holds the connection
	if pErr == nil {
		vfAssert(pings == 1, "c11-accepted-control-is-on-the-wire")
	} else {
		ne, isNet := pErr.(*netError)
		vfAssert(isNet && ne.Timeout(), "c11-writecontrol-fails-only-by-timeout")
		vfAssert(variant >= 1, "c11-zero-deadline-never-times-out")
		// "returns a timeout error by that deadline": the wait it gave up on was
		// armed to end no later than the deadline
		vfAssert(pBy, "c11-writecontrol-wait-armed-to-end-by-its-deadline")
		vfAssert(pings == 0, "c11-timed-out-control-writes-nothing")
	}
	if variant == 2 {
		vfAssert(p2Err == nil, "c11-timeout-does-not-poison")
	}
	// and the connection is still usable afterwards
	vfAssert(c.WriteMessage(TextMessage, []byte("after")) == nil, "c11-timeout-does-not-poison")
	vfReach("conc-frames-end")
}

// vfH_conc_close (C11): Close() at any moment concurrently with the writer and
// a WriteControl caller touches only the transport: race-free, no panic.
func vfH_conc_close() {
	vfInit()
	isServer := vfChoose(2) == 1
	tc := vfNewConn(nil)
	c := newConn(tc, isServer, 125, 4, nil, nil, nil)
	vfGo(func() {
		c.WriteMessage(BinaryMessage, []byte("0123456789"))
	})
	vfGo(func() {
		c.WriteControl(PingMessage, nil, time.Time{})
	})
	vfGo(func() {
		c.Close()
	})
	vfJoin()
	s := specDecodeStream(tc.wire(), !isServer, false)
	vfAssert(s.ok, "c11-frames-contiguous-wire-wellformed")
	vfAssert(tc.closed == 1, "c11-close-reaches-transport")
	vfReach("conc-close-end")
}

// vfH_conc_shared (C11.H2 / C19 / C20): one PreparedMessage and one write
// buffer pool shared by two connections used from two goroutines: race-free,
// each wire decodes to the prepared payload, the pool is balanced.
func vfH_conc_shared() {
	vfInit()
	sameKey := vfChoose(2) == 1
	compress := vfChoose(2) == 1
	vp := &vfPool{reuse: true, poison: true}
	data := vfBytes(5)
	orig := append([]byte(nil), data...)
	pm, err := NewPreparedMessage(TextMessage, data)
	vfAssert(err == nil, "c19-prepared-created")
	aServer := vfChoose(2) == 1
	bServer := aServer
	if !sameKey {
		bServer = !aServer
	}
	ta, tb := vfNewConn(nil), vfNewConn(nil)
	ca := newConn(ta, aServer, 0, 8, vp, nil, nil)
	cb := newConn(tb, bServer, 0, 8, vp, nil, nil)
	if compress {
		ca.newCompressionWriter = compressNoContextTakeover
		cb.newCompressionWriter = compressNoContextTakeover
	}
	var ea, eb, ea2, eb2 error
	da, db := vfBytes(11), vfBytes(11)
	oa, ob := append([]byte(nil), da...), append([]byte(nil), db...)
	vfGo(func() {
		ea = ca.WritePreparedMessage(pm)
		ea2 = ca.WriteMessage(BinaryMessage, da)
	})
	vfGo(func() {
		eb = cb.WritePreparedMessage(pm)
		eb2 = cb.WriteMessage(BinaryMessage, db)
	})
	vfJoin()
	vfAssert(ea == nil && eb == nil && ea2 == nil && eb2 == nil, "write-accepted")
	vfJudgeWire(ta.wire(), !aServer, compress, []vfSent{{TextMessage, orig, compress}, {BinaryMessage, oa, compress}}, 0)
	vfJudgeWire(tb.wire(), !bServer, compress, []vfSent{{TextMessage, orig, compress}, {BinaryMessage, ob, compress}}, 0)
	vfAssert(vp.gets == vp.puts, "c20-get-put-balanced")
	vfAssert(ca.writeBuf == nil && cb.writeBuf == nil, "c20-none-held-between-messages")
	vfReach("conc-shared-end")
}

// vfH_conc_fault (C10 / C11): a transport fault hits one of two concurrent
// callers (a data writer and a WriteControl caller that may be parked waiting
// for the connection). On every schedule within the bound: nothing reaches the
// transport after the failed operation, at least one of the two calls reports
// the failure, and every later call fails.
func vfH_conc_fault() {
	vfInit()
	vfTimersFire(false)
	isServer := vfChoose(2) == 1
	tc := vfNewConn(nil)
	tc.wfailAt = vfChoose(2 + 4*vfParam("tier", 0))
	tc.wfault = 1 + vfChoose(3)
	c := newConn(tc, isServer, 0, 8, nil, nil, nil)
	var wErr, pErr error
	zero := vfChoose(2) == 1
	wp, n := vfWPWriteMessage, 3
	if vfParam("tier", 0) >= 1 {
		// thorough: also a message of several frames, written in pieces
		wp = vfPick([]int{vfWPWriteMessage, vfWPWriterSplit})
		n = vfPick([]int{3, 2*(8+14) + 1})
	}
	data := vfBytes(n)
	vfGo(func() {
		wErr = vfDoWrite(c, wp, BinaryMessage, data, 1)
	})
	vfGo(func() {
		d := time.Time{}
		if !zero {
			d = time.Now().Add(time.Hour)
		}
		pErr = c.WriteControl(PingMessage, []byte("p"), d)
	})
	vfJoin()
	if !tc.wfailed {
		// the program has fewer write-side operations than the fault index (short
		// messages in the thorough tier): both calls succeed
		vfAssert(vfParam("tier", 0) >= 1, "fault-write-injected")
		vfAssert(wErr == nil, "write-accepted")
		vfAssert(pErr == nil, "write-accepted")
		return
	}
	vfAssert(tc.afterFail == 0, "c10-nothing-written-after-failed-write")
	vfAssert(wErr != nil || pErr != nil, "c10-failed-step-reports-error")
	vfAssert(c.WriteMessage(TextMessage, []byte("x")) != nil, "c10-later-write-fails")
	vfAssert(c.WriteControl(PongMessage, nil, time.Time{}) != nil, "c10-later-write-fails")
	vfAssert(tc.afterFail == 0, "c10-nothing-written-after-failed-write")
	vfCheckFramesThenPrefix(tc.wire(), !isServer, false, "c10")
	vfReach("conc-fault-end")
}

// vfH_wc_blocked (C11): the connection is held for ever by somebody else (the
// harness takes the write lock and never releases it). WriteControl with a
// live deadline must come back with a timeout error - it may not wait for the
// lock without a timer -, the wait it gave up on ends by the deadline, nothing
// is written and the connection is not poisoned.
func vfH_wc_blocked() {
	vfInit()
	isServer := vfChoose(2) == 1
	tc := vfNewConn(nil)
	c := newConn(tc, isServer, 0, 8, nil, nil, nil)
	if vfChoose(2) == 1 {
		vfAssert(c.WriteMessage(TextMessage, []byte("m")) == nil, "write-accepted")
	}
	nw := tc.nWrites()
	<-c.mu // held from now on
	vfTimersFire(true)
	mt := vfPick([]int{PingMessage, PongMessage, CloseMessage})
	d := time.Now().Add(time.Duration(1+vfChoose(3)) * time.Millisecond)
	err := c.WriteControl(mt, []byte("x"), d)
	by := vfTimerBy(d)
	vfTimersFire(false)
	ne, isNet := err.(*netError)
	vfAssert(isNet && ne.Timeout(), "c11-writecontrol-fails-only-by-timeout")
	vfAssert(by, "c11-writecontrol-wait-armed-to-end-by-its-deadline")
	vfAssert(tc.nWrites() == nw, "c11-timed-out-control-writes-nothing")
	c.mu <- struct{}{} // the holder lets go: the connection is as good as before
	vfAssert(c.WriteMessage(TextMessage, []byte("after")) == nil, "c11-timeout-does-not-poison")
	vfReach("wc-blocked-end")
}

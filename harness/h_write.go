//go:build verif

package websocket

import (
	"io"
	"time"
)

// ---- a small language of write-side steps, decided up-front by case split ----

type vfStep struct {
	wp int // write program, or -1: WriteControl(ping), -2: WriteControl(pong)
	mt int
	n  int
	k  int
}

func vfChooseSteps(M int, W int, wps []int, lens []int) []vfStep {
	var steps []vfStep
	for i := 0; i < M; i++ {
		wp := vfPick(wps)
		st := vfStep{wp: wp}
		if wp < 0 {
			st.n = vfPick([]int{0, 2})
			steps = append(steps, st)
			continue
		}
		st.n = vfPick(lens)
		st.mt = 1 + (st.n+i)%2
		switch wp {
		case vfWPWriterSplit, vfWPPingBetween:
			st.k = vfPick(vfDedup([]int{0, 1, W + 1}, st.n))
		case vfWPReadFrom:
			st.k = vfPick(vfDedup([]int{1, W + 1}, st.n+1))
			if st.k == 0 {
				st.k = 1
			}
		}
		steps = append(steps, st)
	}
	return steps
}

// vfRunStep executes one step; data is the payload to use.
func vfRunStep(c *Conn, st vfStep, data []byte) error {
	switch st.wp {
	case -1:
		return c.WriteControl(PingMessage, data, time.Time{})
	case -2:
		return c.WriteControl(PongMessage, data, time.Time{})
	}
	return vfDoWrite(c, st.wp, st.mt, data, st.k)
}

// vfProbeWrite calls one message-level write API chosen by case split.
func vfProbeWrite(c *Conn, which int) error {
	switch which {
	case 0:
		return c.WriteMessage(TextMessage, []byte("probe"))
	case 1:
		_, err := c.NextWriter(BinaryMessage)
		return err
	case 2:
		return c.WriteControl(PingMessage, []byte("p"), time.Time{})
	case 3:
		// WriteJSON = NextWriter(TextMessage) + encoder + Close
		w, err := c.NextWriter(TextMessage)
		if err != nil {
			return err
		}
		w.Write([]byte("{}"))
		return w.Close()
	case 4:
		pm, err := NewPreparedMessage(TextMessage, []byte("prepared"))
		if err != nil {
			panic("prepared message creation failed")
		}
		return c.WritePreparedMessage(pm)
	case 5:
		return c.WriteControl(CloseMessage, FormatCloseMessage(1000, ""), time.Time{})
	case 6:
		return c.WriteMessage(CloseMessage, nil)
	}
	panic("bad probe")
}

const vfNumProbes = 7

// vfCheckFramesThenPrefix: the wire is a sequence of whole well-formed frames
// followed by at most one incomplete frame.
func vfCheckFramesThenPrefix(wire []byte, fromClient bool, pmce bool, idp string) specStream {
	s := specDecodeStream(wire, fromClient, pmce)
	if !s.ok {
		vfAssert(s.why == "undecodable frame", idp+"-whole-frames-then-one-prefix")
	}
	return s
}

// vfH_fault_write (C10.H1): every index k of a write-side transport operation
// (SetWriteDeadline, Write, each Write of a two-buffer frame) x fault kinds.
func vfH_fault_write() {
	vfInit()
	isServer := vfChoose(2) == 1
	W := 4
	compress := vfChoose(2) == 1
	wps := []int{vfWPWriteMessage, vfWPWriterSplit, vfWPReadFrom, vfWPPrepared, vfWPImplicitClose, -1}
	lens := []int{1, 2*(W+14) + 1}
	tier := vfParam("tier", 0)
	var steps []vfStep
	if tier >= 1 {
		steps = vfChooseSteps(2, W, wps, lens)
	} else {
		steps = vfChooseSteps(1, W, wps, lens)
		steps = append(steps, vfChooseSteps(1, W, []int{vfWPWriteMessage, -1}, lens)...)
	}
	datas := make([][]byte, len(steps))
	for i, st := range steps {
		datas[i] = vfBytes(st.n)
	}
	// phase 1: the fault-free run tells how many write-side operations there are
	t0 := vfNewConn(nil)
	c0 := newConn(t0, isServer, 0, W, nil, nil, nil)
	if compress {
		c0.newCompressionWriter = compressNoContextTakeover
	}
	for i, st := range steps {
		vfAssert(vfRunStep(c0, st, append([]byte(nil), datas[i]...)) == nil, "write-accepted")
	}
	if c0.writer != nil {
		vfAssert(c0.writer.Close() == nil, "write-accepted")
	}
	N := t0.nwops
	vfAssert(N > 0, "fault-write-has-ops")
	// phase 2: the same program with a fault at operation k
	k := vfChoose(N)
	kind := 1 + vfChoose(3)
	tc := vfNewConn(nil)
	tc.wfailAt = k
	tc.wfault = kind
	c := newConn(tc, isServer, 0, W, nil, nil, nil)
	if compress {
		c.newCompressionWriter = compressNoContextTakeover
	}
	sawErr := false
	for i, st := range steps {
		err := vfRunStep(c, st, append([]byte(nil), datas[i]...))
		if tc.wfailed && !sawErr {
			// the step during which the transport failed must not report success,
			// unless it left its writer open (implicit close): then the failure
			// surfaces no later than the next call
			if st.wp != vfWPImplicitClose || err != nil {
				vfAssert(err != nil, "c10-failed-step-reports-error")
			}
			sawErr = true
		} else if sawErr {
			vfAssert(err != nil, "c10-later-write-fails")
		} else {
			vfAssert(err == nil, "write-accepted")
		}
	}
	var open io.WriteCloser = c.writer
	if open != nil {
		err := open.Close()
		if tc.wfailed {
			vfAssert(err != nil, "c10-close-of-open-writer-fails")
		}
	}
	vfAssert(tc.wfailed, "fault-write-injected")
	nw := tc.nWrites()
	// every later message-level call fails and nothing more is written
	p1 := (k + kind) % vfNumProbes
	if tier >= 1 {
		p1 = vfChoose(vfNumProbes)
	}
	vfAssert(vfProbeWrite(c, p1) != nil, "c10-later-write-fails")
	p2 := (p1 + 3) % vfNumProbes
	vfAssert(vfProbeWrite(c, p2) != nil, "c10-later-write-fails")
	vfAssert(tc.afterFail == 0, "c10-no-transport-write-after-fault")
	vfAssert(tc.nWrites() == nw, "c10-nothing-written-after-fault")
	vfCheckFramesThenPrefix(tc.wire(), !isServer, compress, "c10")
	vfReach("fault-write-end")
}

// vfH_invalid_req (C10.H2): invalid write requests fail, write nothing, hold
// no pooled buffer, and do not poison the connection.
func vfH_invalid_req() {
	vfInit()
	isServer := vfChoose(2) == 1
	W := 8
	vp := &vfPool{reuse: true, poison: true}
	tc := vfNewConn(nil)
	c := newConn(tc, isServer, 0, W, vp, nil, nil)
	// optionally one valid message first
	var msgs []vfSent
	if vfChoose(2) == 1 {
		d := vfBytes(3)
		vfAssert(c.WriteMessage(TextMessage, append([]byte(nil), d...)) == nil, "write-accepted")
		msgs = append(msgs, vfSent{TextMessage, d, false})
	}
	ops0 := len(tc.ops)
	kind := vfChoose(9)
	var err error
	switch kind {
	case 0, 1, 2, 3:
		t := vfInt()
		vfAssume(!vfOr(vfOr(vfOr(t == 1, t == 2), vfOr(t == 8, t == 9)), t == 10))
		switch kind {
		case 0:
			_, err = c.NextWriter(t)
		case 1:
			err = c.WriteMessage(t, []byte("x"))
		case 2:
			err = c.WriteControl(t, []byte("x"), time.Time{})
		case 3:
			_, err = NewPreparedMessage(t, []byte("x"))
		}
	case 4:
		err = c.WriteMessage(PingMessage, vfBytes(126))
	case 5:
		err = c.WriteControl(PongMessage, vfBytes(126), time.Time{})
	case 6:
		_, err = NewPreparedMessage(CloseMessage, vfBytes(126))
	case 7:
		// control payload over 125 bytes through a writer
		var w io.WriteCloser
		w, err = c.NextWriter(PingMessage)
		if err == nil {
			_, err = w.Write(vfBytes(126))
			if err == nil {
				err = w.Close()
			}
		}
	case 8:
		// a control message that would have to be fragmented (larger than the buffer)
		var w io.WriteCloser
		w, err = c.NextWriter(PongMessage)
		if err == nil {
			_, err = w.Write(vfBytes(W + 3))
			if err == nil {
				err = w.Close()
			}
		}
	}
	vfAssert(err != nil, "c10-invalid-request-fails")
	vfAssert(len(tc.ops) == ops0, "c10-invalid-request-writes-nothing")
	vfAssert(vp.gets == vp.puts, "c20-invalid-request-holds-no-buffer")
	vfAssert(c.writeBuf == nil, "c20-invalid-request-holds-no-buffer")
	// not poisoned: a following valid message goes out and decodes
	d := vfBytes(W + 2)
	vfAssert(vfDoWrite(c, vfPick([]int{vfWPWriteMessage, vfWPWriterOne}), BinaryMessage, append([]byte(nil), d...), 0) == nil, "c10-not-poisoned")
	msgs = append(msgs, vfSent{BinaryMessage, d, false})
	vfAssert(c.WriteControl(PingMessage, nil, time.Time{}) == nil, "c10-not-poisoned")
	vfJudgeWire(tc.wire(), !isServer, false, msgs, 1)
	vfAssert(vp.gets == vp.puts && c.writeBuf == nil, "pool-balanced")
	vfReach("invalid-req-end")
}

// vfH_deadline (C10.H3): each frame is written under the deadline last given to
// SetWriteDeadline (WriteControl: under its own argument).
func vfH_deadline() {
	vfInit()
	isServer := vfChoose(2) == 1
	W := 4
	tc := vfNewConn(nil)
	c := newConn(tc, isServer, 0, W, nil, nil, nil)
	type mark struct {
		ops int
		t   time.Time
		ctl bool
	}
	var marks []mark
	cur := time.Time{}
	for i := 0; i < 3; i++ {
		switch vfChoose(3) {
		case 0:
			cur = vfDeadlinePick([]int{0, 1, 2})
			vfAssert(c.SetWriteDeadline(cur) == nil, "setwritedeadline-ok")
		case 1:
			d := vfDeadlinePick([]int{0, -1, 3})
			before := len(tc.ops)
			err := c.WriteControl(PingMessage, []byte("d"), d)
			if err == nil {
				marks = append(marks, mark{before, d, true})
			} else {
				vfAssert(len(tc.ops) == before, "c10-refused-control-writes-nothing")
			}
			continue
		}
		before := len(tc.ops)
		wp := vfPick([]int{vfWPWriteMessage, vfWPWriterSplit, vfWPPrepared})
		n := vfPick([]int{1, 2*(W+14) + 1})
		vfAssert(vfDoWrite(c, wp, BinaryMessage, vfBytes(n), 1) == nil, "write-accepted")
		marks = append(marks, mark{before, cur, false})
	}
	// walk the transport log: the deadline in force on the transport (the value of
	// the most recent SetWriteDeadline, none yet = no deadline) at each Write must
	// be the one the call was entitled to
	mi := 0
	var effective time.Time
	for i, op := range tc.ops {
		for mi+1 < len(marks) && marks[mi+1].ops <= i {
			mi++
		}
		switch op.kind {
		case vfOpSetWriteDeadline:
			effective = op.t
		case vfOpWrite:
			vfAssert(effective == marks[mi].t, "c10-frame-written-under-current-deadline")
		}
	}
	vfReach("deadline-end")
}

// vfH_close_seq (C09.H1): after a close frame written by any path nothing more
// reaches the transport and every later write fails.
func vfH_close_seq() {
	vfInit()
	vfClockMaxStep(int64(writeWait) / 4)
	isServer := vfChoose(2) == 1
	W := 8
	path := vfChoose(7)
	// reader-triggered closes need an input stream
	gen := &vfGen{fromClient: isServer}
	switch path {
	case 4: // the peer sends a close: the default handler echoes it
		gen.frame(true, false, CloseMessage, []byte{0x03, 0xe8, 'o', 'k'})
	case 5: // the peer violates the protocol: 1002 is sent
		gen.frame(true, false, 3, nil)
	case 6: // read limit breach: 1009 is sent
		gen.frame(true, false, TextMessage, make([]byte, 20))
	}
	tc := vfNewConn(gen.wire)
	c := newConn(tc, isServer, 125, W, nil, nil, nil)
	if path == 6 {
		c.SetReadLimit(10)
	}
	compress := vfChoose(2) == 1
	if compress {
		c.newCompressionWriter = compressNoContextTakeover
	}
	// optionally a complete message first
	if vfChoose(2) == 1 {
		vfAssert(c.WriteMessage(TextMessage, vfBytes(3)) == nil, "write-accepted")
	}
	// optionally a data writer is open, with buffered bytes, when the close happens
	var open io.WriteCloser
	openState := vfChoose(3)
	if openState > 0 && path != 1 && path != 2 && path != 3 {
		w, err := c.NextWriter(BinaryMessage)
		vfAssert(err == nil, "write-accepted")
		n := 3
		if openState == 2 {
			n = W + 3 // one frame already flushed, more buffered
		}
		_, err = w.Write(vfBytes(n))
		vfAssert(err == nil, "write-accepted")
		open = w
	}
	var err error
	switch path {
	case 0:
		err = c.WriteControl(CloseMessage, FormatCloseMessage(1001, "bye"), vfDeadline())
		if err != nil {
			// an expired deadline legitimately refuses the close: nothing was sent
			vfReach("close-seq-refused")
			return
		}
	case 1:
		reason := ""
		if isServer && !compress && vfChoose(2) == 1 {
			// longer than the write buffer: the server fast path sends the payload as a
			// second buffer (a client would have to fragment it: an invalid request, C10)
			reason = "a close reason that is longer than the write buffer"
		}
		err = c.WriteMessage(CloseMessage, FormatCloseMessage(1000, reason))
	case 2:
		var w io.WriteCloser
		w, err = c.NextWriter(CloseMessage)
		if err == nil {
			_, err = w.Write(FormatCloseMessage(1000, "x"))
			if err == nil {
				err = w.Close()
			}
		}
	case 3:
		pm, perr := NewPreparedMessage(CloseMessage, FormatCloseMessage(1000, "p"))
		vfAssert(perr == nil, "write-accepted")
		err = c.WritePreparedMessage(pm)
	case 4, 5, 6:
		_, _, rerr := c.NextReader()
		vfAssert(rerr != nil, "close-seq-reader-fails")
	}
	vfAssert(err == nil, "close-accepted")
	// the close frame is the last frame on the wire
	s := specDecodeStream(tc.wire(), !isServer, compress)
	vfAssert(s.ok, "wire-wellformed")
	vfAssert(len(s.frames) > 0 && s.frames[len(s.frames)-1].opcode == 8, "c09-close-frame-written")
	nw := tc.nWrites()
	nops := len(tc.ops)
	// every later write fails; ErrCloseSent when the request is otherwise valid
	p0 := vfChoose(vfNumProbes)
	for i := 0; i < 2; i++ {
		p := (p0 + 4*i) % vfNumProbes
		perr := vfProbeWrite(c, p)
		vfAssert(perr != nil, "c09-write-after-close-fails")
		vfAssert(perr == ErrCloseSent, "c09-errclosesent")
	}
	if open != nil {
		_, werr := open.Write(vfBytes(2 * W))
		cerr := open.Close()
		vfAssert(werr != nil || cerr != nil, "c09-open-writer-fails-no-later-than-close")
	}
	vfAssert(tc.nWrites() == nw, "c09-nothing-written-after-close")
	vfAssert(len(tc.ops) == nops, "c09-no-transport-op-after-close")
	vfReach("close-seq-end")
}

// vfH_pool_seq (C20.H1): the pooled write buffer is taken when a message
// starts, returned (that very buffer) when it ends, by any ending; none is
// held between messages; released buffers (overwritten by the pool model with
// arbitrary bytes) never influence the wire.
func vfH_pool_seq() {
	vfInit()
	isServer := vfChoose(2) == 1
	W := 4
	compress := vfChoose(2) == 1
	vp := &vfPool{reuse: vfChoose(2) == 1, poison: true}
	tc := vfNewConn(nil)
	faulty := vfChoose(3) == 2
	if faulty {
		tc.wfailAt = vfChoose(5)
		tc.wfault = 1 + vfChoose(3)
	}
	c := newConn(tc, isServer, 0, W, vp, nil, nil)
	if compress {
		c.newCompressionWriter = compressNoContextTakeover
	}
	wps := []int{vfWPWriteMessage, vfWPWriterSplit, vfWPReadFrom, vfWPPrepared, vfWPImplicitClose, vfWPPingBetween, -1}
	steps := vfChooseSteps(2, W, wps, []int{0, 3, 2*(W+14) + 1})
	var msgs []vfSent
	nctl := 0
	for _, st := range steps {
		d := vfBytes(st.n)
		err := vfRunStep(c, st, append([]byte(nil), d...))
		if !faulty {
			vfAssert(err == nil, "write-accepted")
		}
		if st.wp >= 0 {
			msgs = append(msgs, vfSent{st.mt, d, compress})
			if st.wp == vfWPPingBetween {
				nctl++
			}
		} else {
			nctl++
		}
		// between messages no buffer is held (a writer left open holds one)
		if c.writer == nil {
			vfAssert(c.writeBuf == nil, "c20-none-held-between-messages")
			vfAssert(vp.gets == vp.puts, "c20-get-put-balanced")
		} else {
			vfAssert(vp.gets == vp.puts+1, "c20-one-buffer-while-writing")
		}
	}
	if c.writer != nil {
		c.writer.Close()
	}
	vfAssert(c.writeBuf == nil, "c20-none-held-between-messages")
	vfAssert(vp.gets == vp.puts, "c20-get-put-balanced")
	// strict alternation Get, Put, Get, Put, ...
	for i, e := range vp.log {
		want := 1
		if i%2 == 1 {
			want = -1
		}
		vfAssert(e == want, "c20-get-put-alternate")
	}
	if !faulty {
		vfJudgeWire(tc.wire(), !isServer, compress, msgs, nctl)
	} else {
		vfCheckFramesThenPrefix(tc.wire(), !isServer, compress, "c20")
	}
	vfReach("pool-seq-end")
}

// vfH_prepared_seq (C19.H1): one PreparedMessage sent to connections of
// differing role / negotiation / write-compression settings, with setting
// changes between sends and mutation of the caller's slice.
func vfH_prepared_seq() {
	vfInit()
	tier := vfParam("tier", 0)
	mt := vfPick([]int{TextMessage, BinaryMessage, PingMessage, PongMessage, CloseMessage})
	lens := []int{0, 1, 14, 40}
	if tier >= 1 {
		lens = []int{0, 1, 14, 40, 125, 126, 4096, 4097, 8200}
	} else if mt == TextMessage {
		lens = []int{0, 1, 14, 40, 4100} // larger than the internal 4096-byte buffer
	}
	n := vfPick(lens)
	data := vfBytes(n)
	orig := append([]byte(nil), data...)
	pm, err := NewPreparedMessage(mt, data)
	if mt >= 8 && n > 125 {
		vfAssert(err != nil, "c19-oversized-control-refused-at-creation")
		vfReach("prepared-refused")
		return
	}
	vfAssert(err == nil, "c19-prepared-created")
	// the caller modifies its slice afterwards
	for i := range data {
		data[i] = vfByte()
	}
	type ep struct {
		tc  *vfConn
		c   *Conn
		neg bool
		n   int
	}
	mk := func(isServer, neg bool) *ep {
		tc := vfNewConn(nil)
		c := newConn(tc, isServer, 0, 16, nil, nil, nil)
		if neg {
			c.newCompressionWriter = compressNoContextTakeover
		}
		return &ep{tc: tc, c: c, neg: neg}
	}
	aServer := vfChoose(2) == 1
	eps := []*ep{mk(aServer, vfChoose(2) == 1), mk(!aServer, vfChoose(2) == 1), mk(aServer, true)}
	type sent struct {
		e    *ep
		comp bool
	}
	var sends []sent
	nsends := 2
	if tier >= 1 {
		nsends = 3
	}
	for i := 0; i < nsends; i++ {
		e := eps[vfChoose(len(eps))]
		switch vfChoose(3) {
		case 1:
			e.c.EnableWriteCompression(false)
		case 2:
			e.c.EnableWriteCompression(true)
			if e.neg {
				lvl := vfPick([]int{-2, 1, 9})
				vfAssert(e.c.SetCompressionLevel(lvl) == nil, "level-accepted")
			}
		}
		comp := e.neg && e.c.enableWriteCompression && (mt == TextMessage || mt == BinaryMessage)
		werr := e.c.WritePreparedMessage(pm)
		if mt == CloseMessage && e.n > 0 {
			vfAssert(werr == ErrCloseSent, "c09-errclosesent")
			continue
		}
		vfAssert(werr == nil, "c19-prepared-write-accepted")
		e.n++
		sends = append(sends, sent{e, comp})
	}
	// every connection's wire holds exactly the sends made to it, each decoding to
	// the ORIGINAL payload in that connection's framing variant
	for _, e := range eps {
		s := specDecodeStream(e.tc.wire(), !e.c.isServer, e.neg)
		vfAssert(s.ok && !s.open, "wire-wellformed")
		k := 0
		var comps []bool
		for _, sd := range sends {
			if sd.e == e {
				comps = append(comps, sd.comp)
			}
		}
		if mt >= 8 {
			vfAssert(len(s.ctls) == e.n && len(s.msgs) == 0, "c19-one-wire-message-per-send")
			for _, ct := range s.ctls {
				vfAssert(ct.opcode == mt, "c19-type")
				vfAssert(vfAllEq(ct.payload, orig), "c19-payload-is-the-one-given-at-creation")
			}
		} else {
			vfAssert(len(s.msgs) == e.n && len(s.ctls) == 0, "c19-one-wire-message-per-send")
			for _, m := range s.msgs {
				vfAssert(m.opcode == mt, "c19-type")
				vfAssert(m.compressed == comps[k], "c19-variant-matches-connection-settings-at-call-time")
				payload := m.payload
				if m.compressed {
					out, ok, inModel := specInflateStored(m.payload)
					vfAssert(inModel && ok, "wire-inflates")
					payload = out
				}
				vfAssert(len(payload) == len(orig), "c19-length")
				vfAssert(vfAllEq(payload, orig), "c19-payload-is-the-one-given-at-creation")
				k++
			}
		}
		if mt == CloseMessage && e.n > 0 {
			vfAssert(e.c.WriteMessage(TextMessage, nil) == ErrCloseSent, "c09-errclosesent")
		}
	}
	vfReach("prepared-seq-end")
}

// vfH_comp_other_conn (C01 / C10): a compressed message on connection A is
// cut short by a transport fault at any write-side operation; afterwards a
// healthy connection B (same role and level, hence the same pooled compressor
// state) sends a compressed message, which must decode to exactly what was
// sent: whatever a failed connection leaves in the shared pools must not leak
// into another connection's stream.
func vfH_comp_other_conn() {
	vfInit()
	isServer := vfChoose(2) == 1
	W := 4
	// the compressor hands its output over in one piece or in two (as the real
	// one does for larger outputs), so that a fault can fall between them
	vfFlateEmit = vfPick([]int{0, 3, 7, 20})
	ta := vfNewConn(nil)
	ta.wfailAt = vfChoose(5)
	ta.wfault = 1 + vfChoose(3)
	ca := newConn(ta, isServer, 0, W, nil, nil, nil)
	ca.newCompressionWriter = compressNoContextTakeover
	wp := vfPick([]int{vfWPWriteMessage, vfWPWriterSplit, vfWPImplicitClose})
	n := vfPick([]int{1, 2*(W+14) + 1})
	errA := vfDoWrite(ca, wp, BinaryMessage, vfBytes(n), 1)
	if ca.writer != nil {
		// the application abandons the failed connection's open writer by closing it
		ca.writer.Close()
	}
	if ta.wfailed && wp != vfWPImplicitClose {
		vfAssert(errA != nil, "c10-failed-step-reports-error")
	}
	tb := vfNewConn(nil)
	cb := newConn(tb, isServer, 0, W, nil, nil, nil)
	cb.newCompressionWriter = compressNoContextTakeover
	db := vfBytes(5)
	orig := append([]byte(nil), db...)
	vfAssert(cb.WriteMessage(TextMessage, db) == nil, "write-accepted")
	vfJudgeWire(tb.wire(), !isServer, true, []vfSent{{TextMessage, orig, true}}, 0)
	vfReach("comp-other-conn-end")
}

//go:build verif

package websocket

// Object-level models of the net/http, net/url, crypto/sha1 and context calls
// the handshake code makes. The engine redirects the real callees to these
// functions (engine.go: defaultRedirects); natively the real packages run,
// driven by harness inputs that are well-formed for them.

import (
	"bufio"
	"context"
	"crypto/tls"
	"errors"
	"hash"
	"io"
	"net"
	"net/http"
	"net/http/httptrace"
	"net/url"
	"sync"
	"time"
)

// ---- server side: ResponseWriter / Hijacker recorder ----

type vfRW struct {
	hdr         http.Header
	status      int
	wroteHeader int
	body        []byte
	hijacked    int
	hijackErr   error
	conn        *vfConn
	br          *bufio.Reader
	bw          *bufio.Writer
}

func (w *vfRW) Header() http.Header {
	if w.hdr == nil {
		w.hdr = http.Header{}
	}
	return w.hdr
}

func (w *vfRW) Write(p []byte) (int, error) {
	if w.wroteHeader == 0 {
		w.WriteHeader(200)
	}
	w.body = append(w.body, p...)
	return len(p), nil
}

func (w *vfRW) WriteHeader(code int) {
	w.wroteHeader++
	if w.status == 0 {
		w.status = code
	}
}

func (w *vfRW) Hijack() (net.Conn, *bufio.ReadWriter, error) {
	w.hijacked++
	if w.hijackErr != nil {
		return nil, nil, w.hijackErr
	}
	return w.conn, bufio.NewReadWriter(w.br, w.bw), nil
}

var vfRCMu sync.Mutex
var vfRCs map[*http.ResponseController]http.ResponseWriter

func vfNewResponseController(w http.ResponseWriter) *http.ResponseController {
	rc := new(http.ResponseController)
	vfRCMu.Lock()
	if vfRCs == nil {
		vfRCs = map[*http.ResponseController]http.ResponseWriter{}
	}
	vfRCs[rc] = w
	vfRCMu.Unlock()
	return rc
}

var vfErrNotHijacker = errors.New("feature not supported")

func vfHijack(rc *http.ResponseController) (net.Conn, *bufio.ReadWriter, error) {
	vfRCMu.Lock()
	w := vfRCs[rc]
	vfRCMu.Unlock()
	if h, ok := w.(http.Hijacker); ok {
		return h.Hijack()
	}
	return nil, nil, vfErrNotHijacker
}

func vfHTTPError(w http.ResponseWriter, msg string, code int) {
	h := w.Header()
	h.Del("Content-Length")
	h.Set("Content-Type", "text/plain; charset=utf-8")
	h.Set("X-Content-Type-Options", "nosniff")
	w.WriteHeader(code)
	w.Write([]byte(msg + "\n"))
}

// ---- url.Parse on template inputs ----

type vfURLParts struct {
	scheme, host, path, rawQuery string
	user                         *url.Userinfo
	err                          error
}

var vfURLHints map[string]*vfURLParts

func vfHintURL(s string, p *vfURLParts) {
	if vfURLHints == nil {
		vfURLHints = map[string]*vfURLParts{}
	}
	vfURLHints[s] = p
}

var vfErrURLOutsideModel = errors.New("vf: url.Parse called on a string the harness did not announce")

// vfURLParse answers url.Parse for the strings the harness built from
// templates (the harness knows scheme/host/path by construction); anything
// else is outside the model.
func vfURLParse(s string) (*url.URL, error) {
	for k, p := range vfURLHints {
		if vfStrEq(k, s) {
			if p.err != nil {
				return nil, p.err
			}
			return &url.URL{Scheme: p.scheme, Host: p.host, Path: p.path, RawQuery: p.rawQuery, User: p.user}, nil
		}
	}
	vfAssume(false)
	return nil, vfErrURLOutsideModel
}

func vfUserinfoUsername(u *url.Userinfo) string {
	if u == vfUserPw || u == vfUserOnly {
		return "alice"
	}
	return ""
}

func vfUserinfoPassword(u *url.Userinfo) (string, bool) {
	if u == vfUserPw {
		return "secret", true
	}
	return "", false
}

// identity tokens for the two userinfo shapes the harnesses use (engine side only)
var vfUserPw = new(url.Userinfo)
var vfUserOnly = new(url.Userinfo)

// ---- crypto/sha1 as an uninterpreted function ----

type vfSha1 struct {
	data []byte
}

func vfSha1New() hash.Hash                    { return &vfSha1{} }
func (h *vfSha1) Write(p []byte) (int, error) { h.data = append(h.data, p...); return len(p), nil }
func (h *vfSha1) Sum(b []byte) []byte         { return append(b, vfUF("sha1", h.data, 20)...) }
func (h *vfSha1) Reset()                      { h.data = nil }
func (h *vfSha1) Size() int                   { return 20 }
func (h *vfSha1) BlockSize() int              { return 64 }

// ---- context ----

type vfCtx struct {
	deadline    time.Time
	hasDeadline bool
	cancelled   bool
}

func (c *vfCtx) Deadline() (time.Time, bool) { return c.deadline, c.hasDeadline }
func (c *vfCtx) Done() <-chan struct{}       { return nil }
func (c *vfCtx) Err() error                  { return nil }
func (c *vfCtx) Value(key any) any           { return nil }

func vfContextBackground() context.Context { return &vfCtx{} }

func vfContextWithTimeout(parent context.Context, d time.Duration) (context.Context, context.CancelFunc) {
	nc := &vfCtx{deadline: time.Now().Add(d), hasDeadline: true}
	if pd, ok := parent.Deadline(); ok && pd.Before(nc.deadline) {
		nc.deadline = pd
	}
	return nc, func() { nc.cancelled = true }
}

// ---- client side: request serialisation and response parsing ----

// vfReqLog records the request objects handed to (*http.Request).Write.
type vfReqRec struct {
	req *http.Request
	to  interface{} // the writer it was written to
}

var vfReqLog []vfReqRec
var vfReqWriteFail int // 1-based index of the Request.Write call that fails (0: none)

var vfErrReqWrite = errors.New("vf: injected request write error")

// vfRequestWrite models (*http.Request).Write: the request object is handed
// to the harness (which judges it against the RFC) and a placeholder head is
// written to the connection, so that transport faults and deadlines apply.
func vfRequestWrite(r *http.Request, w interface {
	Write([]byte) (int, error)
}) error {
	vfReqLog = append(vfReqLog, vfReqRec{req: r, to: w})
	if vfOnRequest != nil {
		vfOnRequest(r)
	}
	if vfReqWriteFail > 0 && len(vfReqLog) == vfReqWriteFail {
		return vfErrReqWrite
	}
	_, err := w.Write([]byte("<request head>\r\n\r\n"))
	return err
}

func vfRequestWithContext(r *http.Request, ctx context.Context) *http.Request {
	r2 := new(http.Request)
	*r2 = *r
	return r2
}

// vfRespSpec is the reply the harness scripted: the model of
// http.ReadResponse consumes exactly the head bytes from the reader and
// returns this object (the harness builds head bytes that a real parser reads
// as the same object).
type vfRespSpec struct {
	status     string // text after "HTTP/1.1 "
	statusCode int
	header     http.Header
	body       []byte
	headLen    int // number of bytes of the head on the wire
	err        error
}

var vfRespQueue []*vfRespSpec

type vfBody struct {
	data   []byte
	pos    int
	closed int
	reads  int
	asked  int
	// bytes of the body that were already in the client's buffered reader when
	// the head had been parsed, and the connection the rest arrives on: once that
	// connection is closed only the buffered part can still be read
	buffered int
	conn     *vfConn
}

// vfBodyConn is the transport the next modelled response arrives on (nil: not tracked).
var vfBodyConn *vfConn

func (b *vfBody) Read(p []byte) (int, error) {
	b.reads++
	b.asked += len(p)
	if b.pos >= len(b.data) {
		return 0, io.EOF
	}
	m := len(b.data) - b.pos
	if b.conn != nil && b.conn.closed > 0 {
		if b.pos >= b.buffered {
			return 0, net.ErrClosed
		}
		if m > b.buffered-b.pos {
			m = b.buffered - b.pos
		}
	}
	if vfBodyChunk > 0 && m > vfBodyChunk {
		m = vfBodyChunk // the body arrives in several reads
	}
	if m > len(p) {
		m = len(p)
	}
	n := copy(p, b.data[b.pos:b.pos+m])
	b.pos += n
	return n, nil
}

var vfBodyChunk int

func (b *vfBody) Close() error { b.closed++; return nil }

var vfErrBadResponse = errors.New("malformed HTTP response (model)")

func vfReadResponse(br *bufio.Reader, req *http.Request) (*http.Response, error) {
	if len(vfRespQueue) == 0 {
		vfAssume(false)
	}
	spec := vfRespQueue[0]
	vfRespQueue = vfRespQueue[1:]
	// consume the head through the caller's buffered reader
	for i := 0; i < spec.headLen; i++ {
		if _, err := br.ReadByte(); err != nil {
			if err == io.EOF {
				err = io.ErrUnexpectedEOF
			}
			return nil, err
		}
	}
	if spec.err != nil {
		return nil, spec.err
	}
	resp := &http.Response{Status: spec.status, StatusCode: spec.statusCode, Proto: "HTTP/1.1", ProtoMajor: 1, ProtoMinor: 1,
		Header: spec.header, Body: &vfBody{data: spec.body, buffered: br.Buffered(), conn: vfBodyConn}, Request: req}
	// as net/http reports it for a head without Content-Length / Transfer-Encoding:
	// no body allowed for 1xx, 204, 304 (length 0), otherwise close-delimited (-1)
	if c := spec.statusCode; !(c/100 == 1 || c == 204 || c == 304) {
		resp.ContentLength = -1
	}
	return resp, nil
}

func vfResponseCookies(r *http.Response) []*http.Cookie  { return nil }
func vfRequestAddCookie(r *http.Request, c *http.Cookie) {}

func vfNopCloser(r io.Reader) io.ReadCloser { return vfNop{r} }

type vfNop struct{ io.Reader }

func (vfNop) Close() error { return nil }

// ---- crypto/tls at call-trace level ----

type vfTLSPeer struct {
	certName string // the name the peer's certificate is valid for
	trusted  bool   // issued by a CA the client configuration trusts
}

type vfTLSRec struct {
	inner      net.Conn
	serverName string
	skipVerify bool
	peer       vfTLSPeer
	handshook  bool
	verified   string
	closed     int
}

var vfTLSMu sync.Mutex
var vfTLSConns map[*tls.Conn]*vfTLSRec
var vfTLSLog []*vfTLSRec
var vfTLSPeers []vfTLSPeer // certificates of the successive TLS peers, in dial order

var vfErrTLS = errors.New("vf: certificate verification failed (model)")

func vfTLSClient(conn net.Conn, cfg *tls.Config) *tls.Conn {
	tc := new(tls.Conn)
	rec := &vfTLSRec{inner: conn, serverName: cfg.ServerName, skipVerify: cfg.InsecureSkipVerify}
	vfTLSMu.Lock()
	if vfTLSConns == nil {
		vfTLSConns = map[*tls.Conn]*vfTLSRec{}
	}
	if len(vfTLSPeers) > 0 {
		rec.peer = vfTLSPeers[0]
		vfTLSPeers = vfTLSPeers[1:]
	}
	vfTLSConns[tc] = rec
	vfTLSLog = append(vfTLSLog, rec)
	vfTLSMu.Unlock()
	return tc
}

func vfTLSRecOf(c *tls.Conn) *vfTLSRec {
	vfTLSMu.Lock()
	defer vfTLSMu.Unlock()
	return vfTLSConns[c]
}

// crypto/tls verifies the peer's chain and, against Config.ServerName, its
// host name during the handshake itself unless InsecureSkipVerify is set.
func vfTLSHandshakeContext(c *tls.Conn, ctx context.Context) error {
	r := vfTLSRecOf(c)
	if !r.skipVerify && (!r.peer.trusted || r.serverName != r.peer.certName) {
		return vfErrTLS
	}
	r.handshook = true
	return nil
}

func vfTLSVerifyHostname(c *tls.Conn, host string) error {
	r := vfTLSRecOf(c)
	if host != r.peer.certName {
		return vfErrTLS
	}
	r.verified = host
	return nil
}

func vfTLSConnectionState(c *tls.Conn) tls.ConnectionState { return tls.ConnectionState{} }

func vfTLSClose(c *tls.Conn) error {
	r := vfTLSRecOf(c)
	r.closed++
	return r.inner.Close() // crypto/tls documents that Close closes the underlying connection
}

func vfTLSRead(c *tls.Conn, p []byte) (int, error)  { return vfTLSRecOf(c).inner.Read(p) }
func vfTLSWrite(c *tls.Conn, p []byte) (int, error) { return vfTLSRecOf(c).inner.Write(p) }
func vfTLSSetDeadline(c *tls.Conn, t time.Time) error {
	return vfTLSRecOf(c).inner.SetDeadline(t)
}
func vfTLSSetReadDeadline(c *tls.Conn, t time.Time) error {
	return vfTLSRecOf(c).inner.SetReadDeadline(t)
}
func vfTLSSetWriteDeadline(c *tls.Conn, t time.Time) error {
	return vfTLSRecOf(c).inner.SetWriteDeadline(t)
}

func vfTLSConfigClone(c *tls.Config) *tls.Config {
	c2 := new(tls.Config)
	c2.ServerName = c.ServerName
	c2.InsecureSkipVerify = c.InsecureSkipVerify
	c2.NextProtos = c.NextProtos
	return c2
}

func vfContextClientTrace(ctx context.Context) *httptrace.ClientTrace { return nil }

var vfDefaultDialerUsed int
var vfDefaultDialConn net.Conn

func vfNetDialerDialContext(d *net.Dialer, ctx context.Context, network, addr string) (net.Conn, error) {
	vfDefaultDialerUsed++
	if vfDefaultDialConn == nil {
		return nil, vfErrInjected
	}
	return vfDefaultDialConn, nil
}

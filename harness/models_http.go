//go:build verif

package websocket

// Object-level models of the net/http, net/url, crypto/sha1 and context calls
// the handshake code makes. The engine redirects the real callees to these
// functions (engine.go: defaultRedirects); natively the real packages run,
// driven by harness inputs that are well-formed for them.

import (
	"bufio"
	"context"
	"errors"
	"hash"
	"net"
	"net/http"
	"net/url"
	"sync"
	"time"
)

// ---- server side: ResponseWriter / Hijacker recorder ----

type vfRW struct {
	hdr         http.Header
	status      int
	wroteHeader int
	body        []byte
	hijacked    int
	hijackErr   error
	conn        *vfConn
	br          *bufio.Reader
	bw          *bufio.Writer
}

func (w *vfRW) Header() http.Header {
	if w.hdr == nil {
		w.hdr = http.Header{}
	}
	return w.hdr
}

func (w *vfRW) Write(p []byte) (int, error) {
	if w.wroteHeader == 0 {
		w.WriteHeader(200)
	}
	w.body = append(w.body, p...)
	return len(p), nil
}

func (w *vfRW) WriteHeader(code int) {
	w.wroteHeader++
	if w.status == 0 {
		w.status = code
	}
}

func (w *vfRW) Hijack() (net.Conn, *bufio.ReadWriter, error) {
	w.hijacked++
	if w.hijackErr != nil {
		return nil, nil, w.hijackErr
	}
	return w.conn, bufio.NewReadWriter(w.br, w.bw), nil
}

var vfRCMu sync.Mutex
var vfRCs map[*http.ResponseController]http.ResponseWriter

func vfNewResponseController(w http.ResponseWriter) *http.ResponseController {
	rc := new(http.ResponseController)
	vfRCMu.Lock()
	if vfRCs == nil {
		vfRCs = map[*http.ResponseController]http.ResponseWriter{}
	}
	vfRCs[rc] = w
	vfRCMu.Unlock()
	return rc
}

var vfErrNotHijacker = errors.New("feature not supported")

func vfHijack(rc *http.ResponseController) (net.Conn, *bufio.ReadWriter, error) {
	vfRCMu.Lock()
	w := vfRCs[rc]
	vfRCMu.Unlock()
	if h, ok := w.(http.Hijacker); ok {
		return h.Hijack()
	}
	return nil, nil, vfErrNotHijacker
}

func vfHTTPError(w http.ResponseWriter, msg string, code int) {
	h := w.Header()
	h.Del("Content-Length")
	h.Set("Content-Type", "text/plain; charset=utf-8")
	h.Set("X-Content-Type-Options", "nosniff")
	w.WriteHeader(code)
	w.Write([]byte(msg + "\n"))
}

// ---- url.Parse on template inputs ----

type vfURLParts struct {
	scheme, host, path, rawQuery string
	user                          *url.Userinfo
	err                           error
}

var vfURLHints map[string]*vfURLParts

func vfHintURL(s string, p *vfURLParts) {
	if vfURLHints == nil {
		vfURLHints = map[string]*vfURLParts{}
	}
	vfURLHints[s] = p
}

var vfErrURLOutsideModel = errors.New("vf: url.Parse called on a string the harness did not announce")

// vfURLParse answers url.Parse for the strings the harness built from
// templates (the harness knows scheme/host/path by construction); anything
// else is outside the model.
func vfURLParse(s string) (*url.URL, error) {
	for k, p := range vfURLHints {
		if vfStrEq(k, s) {
			if p.err != nil {
				return nil, p.err
			}
			return &url.URL{Scheme: p.scheme, Host: p.host, Path: p.path, RawQuery: p.rawQuery, User: p.user}, nil
		}
	}
	vfAssume(false)
	return nil, vfErrURLOutsideModel
}

func vfUserinfoUsername(u *url.Userinfo) string {
	if u == vfUserPw || u == vfUserOnly {
		return "alice"
	}
	return ""
}

func vfUserinfoPassword(u *url.Userinfo) (string, bool) {
	if u == vfUserPw {
		return "secret", true
	}
	return "", false
}

// identity tokens for the two userinfo shapes the harnesses use (engine side only)
var vfUserPw = new(url.Userinfo)
var vfUserOnly = new(url.Userinfo)

// ---- crypto/sha1 as an uninterpreted function ----

type vfSha1 struct {
	data []byte
}

func vfSha1New() hash.Hash                       { return &vfSha1{} }
func (h *vfSha1) Write(p []byte) (int, error)    { h.data = append(h.data, p...); return len(p), nil }
func (h *vfSha1) Sum(b []byte) []byte            { return append(b, vfUF("sha1", h.data, 20)...) }
func (h *vfSha1) Reset()                         { h.data = nil }
func (h *vfSha1) Size() int                      { return 20 }
func (h *vfSha1) BlockSize() int                 { return 64 }

// ---- context ----

type vfCtx struct {
	deadline    time.Time
	hasDeadline bool
	cancelled   bool
}

func (c *vfCtx) Deadline() (time.Time, bool) { return c.deadline, c.hasDeadline }
func (c *vfCtx) Done() <-chan struct{}       { return nil }
func (c *vfCtx) Err() error                  { return nil }
func (c *vfCtx) Value(key any) any           { return nil }

func vfContextBackground() context.Context { return &vfCtx{} }

func vfContextWithTimeout(parent context.Context, d time.Duration) (context.Context, context.CancelFunc) {
	nc := &vfCtx{deadline: time.Now().Add(d), hasDeadline: true}
	if pd, ok := parent.Deadline(); ok && pd.Before(nc.deadline) {
		nc.deadline = pd
	}
	return nc, func() { nc.cancelled = true }
}

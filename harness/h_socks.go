//go:build verif

package websocket

// vfH_socks_reply (C18 "SOCKS5 proxies are driven equivalently"; C16 closure on
// a failed proxy negotiation; C07 robustness against proxy reply bytes):
// proxyFromURL with a socks5:// URL, executed together with the real
// golang.org/x/net/proxy and golang.org/x/net/internal/socks code, against a
// scripted proxy whose reply bytes are symbolic. The expected client transcript
// is written here from RFC 1928 / RFC 1929, not taken from x/net.

import (
	"context"
	"net"
	"net/url"
	"strconv"
)

type vfSocksTarget struct {
	hostport string
	atyp     byte
	addr     []byte // address field as RFC 1928 section 5 encodes it (FQDN: without the length octet)
	port     int
}

var vfSocksTargets = []vfSocksTarget{
	{"backend.example:443", 3, []byte("backend.example"), 443},
	{"192.0.2.7:80", 1, []byte{192, 0, 2, 7}, 80},
	{"[2001:db8::1]:8080", 4, []byte{0x20, 0x01, 0x0d, 0xb8, 0, 0, 0, 0, 0, 0, 0, 0, 0, 0, 0, 1}, 8080},
}

// vfSocksTargetOf: the RFC 1928 address form of a concrete "host:port".
func vfSocksTargetOf(hostport string) vfSocksTarget {
	h, p, _ := net.SplitHostPort(hostport)
	port, _ := strconv.Atoi(p)
	t := vfSocksTarget{hostport: hostport, port: port}
	if ip := net.ParseIP(h); ip == nil {
		t.atyp, t.addr = 3, []byte(h)
	} else if vfHasColon(h) {
		t.atyp, t.addr = 4, []byte(ip)
	} else {
		t.atyp, t.addr = 1, []byte(ip[len(ip)-4:])
	}
	return t
}

func vfHasColon(s string) bool {
	for i := 0; i < len(s); i++ {
		if s[i] == ':' {
			return true
		}
	}
	return false
}

// specSocksRequest: RFC 1928 section 4 request for CONNECT to the target.
func specSocksRequest(t vfSocksTarget) []byte {
	out := []byte{5, 1, 0, t.atyp}
	if t.atyp == 3 {
		out = append(out, byte(len(t.addr)))
	}
	out = append(out, t.addr...)
	return append(out, byte(t.port>>8), byte(t.port))
}

func vfH_socks_reply() {
	vfInit()
	vfUseRealPkg("golang.org/x/net/proxy")
	vfSchedBound(0) // x/net's context-watcher goroutine never fires in the model: scheduled non-preemptively
	vfUseRealPkg("golang.org/x/net/internal/socks")
	if !vfSymbolic() {
		*vfUserPw = *url.UserPassword("alice", "secret")
		*vfUserOnly = *url.User("alice")
	}
	purl := &url.URL{Scheme: "socks5", Host: "proxy.example"}
	wantProxy := "proxy.example:1080" // the registered SOCKS port when the URL names none
	cred := vfChoose(3)
	pw := ""
	switch cred {
	case 1:
		purl.User = vfUserOnly
	case 2:
		purl.User = vfUserPw
		pw = "secret"
	}
	// one (thorough: two) dimension(s) away from: default port, FQDN target, IPv4
	// bound address, healthy transport delivering as much as fits, no deadline
	tgt := vfSocksTargets[0]
	atyp, flen := 0, 0
	cutSel, rfault := 0, vfFaultEOF
	chunk := vfChunkMax
	wfailAt, wfault := -1, 0
	ctx := &vfCtx{}
	d1, d2 := vfChoose(8), 99
	if vfParam("tier", 0) >= 1 {
		d2 = vfChoose(8)
	}
	if d2 == d1 {
		d2 = 99
	}
	for _, dim := range []int{d1, d2} {
		switch dim {
		case 0:
			if vfChoose(2) == 1 {
				purl.Host, wantProxy = "proxy.example:1081", "proxy.example:1081"
			} else {
				purl.Scheme = "socks5h"
			}
		case 1:
			tgt = vfSocksTargets[1+vfChoose(2)]
		case 2:
			atyp = 1 + vfChoose(3)
			if atyp == 2 {
				flen = vfPick([]int{0, 3, 255})
			}
		case 3:
			cutSel = 1 + vfChoose(5)
			rfault = vfPick([]int{vfFaultEOF, vfFaultErr, vfFaultTimeout})
		case 4:
			chunk = vfChunkOne
		case 5:
			wfailAt, wfault = vfChoose(3), 1+vfChoose(3)
		case 6:
			ctx.hasDeadline = true
			ctx.deadline = vfDeadlinePick([]int{1, 2})
		}
	}

	// ---- the proxy's replies: arbitrary bytes in the RFC 1928 layout ----
	m := vfBytes(2) // method selection
	a := vfBytes(2) // RFC 1929 status
	r := vfBytes(4) // VER REP RSV ATYP
	authStage := false
	if cred > 0 && m[1] == 2 {
		authStage = true
	}
	var bnd []byte
	atypOK := true
	switch atyp {
	case 0:
		vfAssume(r[3] == 1)
		bnd = vfBytes(4 + 2)
	case 1:
		vfAssume(r[3] == 4)
		bnd = vfBytes(16 + 2)
	case 2:
		vfAssume(r[3] == 3)
		bnd = append([]byte{byte(flen)}, vfBytes(flen+2)...)
	case 3:
		vfAssume(r[3] != 1 && r[3] != 3 && r[3] != 4)
		atypOK = false
	}
	in := append([]byte(nil), m...)
	if authStage {
		in = append(in, a...)
	}
	in = append(in, r...)
	in = append(in, bnd...)
	tc := vfNewConn(in)
	// the stream ends / fails early, at a message boundary or inside a message
	full := len(in)
	switch cutSel {
	case 1:
		tc.cut = 0
	case 2:
		tc.cut = 1
	case 3:
		tc.cut = 2
	case 4:
		tc.cut = full - 1
	case 5:
		tc.cut = len(in) - len(bnd) // the reply head without the bound address
	}
	truncated := tc.cut < full
	tc.rfault = rfault
	tc.chunkMode = chunk
	tc.wfailAt, tc.wfault = wfailAt, wfault
	var dials []string
	forward := func(c context.Context, network, addr string) (net.Conn, error) {
		dials = append(dials, network+" "+addr)
		return tc, nil
	}
	vfUnwind(300)
	vfAllocBound(4096)
	tc.trackDL = ctx.hasDeadline
	nd, ferr := proxyFromURL(purl, forward)
	vfAssert(ferr == nil && nd != nil, "c18-socks5-url-accepted")
	conn, err := nd(ctx, "tcp", tgt.hostport)
	tc.trackDL = false
	for _, t := range tc.dlAtOp {
		vfAssert(!t.IsZero() && !t.After(ctx.deadline), "c16-every-proxy-negotiation-op-under-the-context-deadline")
	}

	// ---- what RFC 1928 / 1929 prescribe for this client ----
	greet := []byte{5, 1, 0}
	if cred > 0 {
		greet = []byte{5, 2, 0, 2}
	}
	authmsg := append([]byte{1, 5}, []byte("alice")...)
	authmsg = append(authmsg, byte(len(pw)))
	authmsg = append(authmsg, []byte(pw)...)
	req := specSocksRequest(tgt)
	expect := [][]byte{greet}
	if authStage {
		expect = append(expect, authmsg)
	}
	expect = append(expect, req)

	vfAssert(len(dials) == 1 && dials[0] == "tcp "+wantProxy, "c18-only-the-proxy-is-dialled")
	// what was written is a prefix (whole messages, the last one possibly cut by a
	// transport fault) of the prescribed transcript: nothing else ever reaches the proxy
	w := tc.wire()
	var flat []byte
	for _, e := range expect {
		flat = append(flat, e...)
	}
	vfAssert(len(w) <= len(flat) && vfAllEq(w, flat[:len(w)]), "c18-socks-transcript-is-the-rfc1928-one")
	accepts := vfAnd(m[0] == 5, vfOr(m[1] == 0, vfAnd(authStage, vfAnd(a[0] == 1, a[1] == 0))))
	accepts = vfAnd(accepts, vfAnd(r[0] == 5, vfAnd(r[1] == 0, r[2] == 0)))
	if conn != nil {
		vfAssert(err == nil, "conn-xor-error")
		// any refusal aborts the dial
		vfAssert(m[0] == 5 && m[1] != 0xff, "c18-socks-method-refusal-aborts")
		if authStage {
			vfAssert(a[1] == 0, "c18-socks-auth-failure-aborts")
		}
		vfAssert(r[0] == 5 && r[1] == 0, "c18-socks-connect-refusal-aborts")
		vfAssert(atypOK && !truncated && !tc.wfailed, "c16-socks-fault-aborts")
		vfAssert(len(w) == len(flat), "c18-socks-connect-request-sent-before-tunnel-is-used")
		vfAssert(tc.closed == 0, "c16-open-on-success")
		// the tunnel is the proxy connection
		tc.wfailAt = -1
		conn.Write([]byte{0x42})
		w2 := tc.wire()
		vfAssert(len(w2) == len(flat)+1 && w2[len(flat)] == 0x42, "c18-tunnel-is-the-proxy-connection")
		vfReach("socks-tunnel")
	} else {
		vfAssert(err != nil, "conn-xor-error")
		vfAssert(tc.closed >= 1, "c16-closed-on-proxy-refusal")
		// a well-formed acceptance over a healthy transport yields the tunnel
		vfAssert(!(accepts && atypOK && !truncated && !tc.wfailed), "c18-socks-acceptance-yields-the-tunnel")
		vfReach("socks-refused")
	}
	if ctx.hasDeadline && len(tc.ops) > 0 {
		// C16: negotiation with the proxy runs under the context's deadline
		first := -1
		for i, op := range tc.ops {
			if op.kind == vfOpWrite || op.kind == vfOpRead {
				first = i
				break
			}
		}
		if first >= 0 {
			dl := -1
			for i, op := range tc.ops[:first] {
				if op.kind == vfOpSetDeadline && !op.t.IsZero() {
					dl = i
				}
			}
			vfAssert(dl >= 0 && !tc.ops[dl].t.After(ctx.deadline), "c16-deadline-set-before-first-transport-op")
		}
	}
}

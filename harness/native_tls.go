//go:build verif

package websocket

// Native-replay side of the TLS call-trace model: a real TLS peer behind the
// scripted connection, with certificates issued at replay time by a private CA
// that the Dialer's configuration trusts. None of this runs symbolically.

import (
	"bufio"
	"crypto/ecdsa"
	"crypto/elliptic"
	"crypto/rand"
	"crypto/tls"
	"crypto/x509"
	"crypto/x509/pkix"
	"io"
	"math/big"
	"net"
	"net/http"
	"time"
)

// vfRealRand is the process's real random source, captured before any harness
// replaces crypto/rand.Reader.
var vfRealRand = rand.Reader

type vfCA struct {
	cert *x509.Certificate
	key  *ecdsa.PrivateKey
	pool *x509.CertPool
}

var vfCAs [2]*vfCA // 0: trusted by the harness's client configuration, 1: unknown to it

func vfGetCA(i int) *vfCA {
	if vfCAs[i] != nil {
		return vfCAs[i]
	}
	key, _ := ecdsa.GenerateKey(elliptic.P256(), vfRealRand)
	tmpl := &x509.Certificate{SerialNumber: big.NewInt(int64(100 + i)), Subject: pkix.Name{CommonName: "vf test CA"},
		NotBefore: time.Now().Add(-time.Hour), NotAfter: time.Now().Add(24 * time.Hour), IsCA: true,
		KeyUsage: x509.KeyUsageCertSign, BasicConstraintsValid: true}
	der, err := x509.CreateCertificate(vfRealRand, tmpl, tmpl, &key.PublicKey, key)
	if err != nil {
		panic(err)
	}
	cert, _ := x509.ParseCertificate(der)
	pool := x509.NewCertPool()
	pool.AddCert(cert)
	vfCAs[i] = &vfCA{cert: cert, key: key, pool: pool}
	return vfCAs[i]
}

func vfLeaf(name string, trusted bool) tls.Certificate {
	ca := vfGetCA(0)
	if !trusted {
		ca = vfGetCA(1)
	}
	key, _ := ecdsa.GenerateKey(elliptic.P256(), vfRealRand)
	tmpl := &x509.Certificate{SerialNumber: big.NewInt(time.Now().UnixNano()), Subject: pkix.Name{CommonName: name}, DNSNames: []string{name},
		NotBefore: time.Now().Add(-time.Hour), NotAfter: time.Now().Add(24 * time.Hour),
		KeyUsage: x509.KeyUsageDigitalSignature, ExtKeyUsage: []x509.ExtKeyUsage{x509.ExtKeyUsageServerAuth}}
	der, err := x509.CreateCertificate(vfRealRand, tmpl, ca.cert, &key.PublicKey, ca.key)
	if err != nil {
		panic(err)
	}
	return tls.Certificate{Certificate: [][]byte{der}, PrivateKey: key}
}

// vfClientTLSBase: what the harness puts into Dialer.TLSClientConfig natively so
// that the real crypto/tls trusts the replay CA and does not draw from the
// witness-backed random source.
func vfClientTLSBase(c *tls.Config) {
	if vfSymbolic() {
		return
	}
	c.RootCAs = vfGetCA(0).pool
	c.Rand = vfRealRand
}

type vfHop struct {
	tls     bool // a TLS server handshake with a certificate for name
	name    string
	trusted bool
	connect bool // read a CONNECT request and answer 200
	socks   bool // RFC 1928 negotiation: no authentication, CONNECT granted
}

// vfNativePeer serves the far end of a piped connection.
func vfNativePeer(server net.Conn, hops []vfHop, reply func(r *http.Request) []byte) {
	conn := server
	for _, h := range hops {
		if h.tls {
			// a TLS ClientHello starts with record type 0x16: anything else arriving here
			// (e.g. "GET ...") is handshake traffic sent outside TLS
			pc := &vfPeekConn{Conn: conn}
			first := make([]byte, 1)
			if n, _ := conn.Read(first); n == 1 {
				pc.buf = first
				if first[0] != 0x16 {
					vfTLSMu.Lock()
					vfPlainSeen = true
					vfTLSMu.Unlock()
				}
			}
			conn = pc
			ts := tls.Server(conn, &tls.Config{Certificates: []tls.Certificate{vfLeaf(h.name, h.trusted)}, Rand: vfRealRand})
			if err := ts.Handshake(); err != nil {
				server.Close()
				return
			}
			conn = ts
		}
		if h.socks {
			b := make([]byte, 300)
			ok := func(n int) bool { _, err := io.ReadFull(conn, b[:n]); return err == nil }
			if !ok(2) || !ok(int(b[1])) {
				server.Close()
				return
			}
			conn.Write([]byte{5, 0})
			if !ok(4) {
				server.Close()
				return
			}
			n := 4
			switch b[3] {
			case 4:
				n = 16
			case 3:
				if !ok(1) {
					server.Close()
					return
				}
				n = int(b[0])
			}
			if !ok(n + 2) {
				server.Close()
				return
			}
			conn.Write([]byte{5, 0, 0, 1, 0, 0, 0, 0, 0, 0})
		}
		if h.connect {
			rq, err := http.ReadRequest(bufio.NewReader(conn))
			if err != nil {
				server.Close()
				return
			}
			vfReqLog = append(vfReqLog, vfReqRec{req: rq})
			conn.Write([]byte("HTTP/1.1 200 Connection established\r\n\r\n"))
		}
	}
	rq, err := http.ReadRequest(bufio.NewReader(conn))
	if err != nil {
		server.Close()
		return
	}
	vfReqLog = append(vfReqLog, vfReqRec{req: rq})
	conn.Write(reply(rq))
	// stay open; drain until the client closes
	buf := make([]byte, 256)
	for {
		if _, err := conn.Read(buf); err != nil {
			return
		}
	}
}

// vfPlainSeen: a native TLS peer received something other than a TLS record
// where the ClientHello was due.
var vfPlainSeen bool

type vfPeekConn struct {
	net.Conn
	buf []byte
}

func (c *vfPeekConn) Read(p []byte) (int, error) {
	if len(c.buf) > 0 && len(p) > 0 {
		n := copy(p, c.buf)
		c.buf = c.buf[n:]
		return n, nil
	}
	return c.Conn.Read(p)
}

//go:build verif

package websocket

// Harness intrinsics. The symbolic engine intercepts every vf* function by
// name; the bodies below are used only when a witness is replayed natively.

import (
	"crypto/sha1"
	"encoding/json"
	"fmt"
	"os"
	"runtime"
	"strings"
	"sync"
	"time"
	"unsafe"
)

type vfWitnessVal struct {
	Name  string `json:"name"`
	Kind  string `json:"kind"`
	Value uint64 `json:"value"`
	N     int    `json:"n"`
}

type vfWitness struct {
	Harness string         `json:"harness"`
	Params  map[string]int `json:"params"`
	Nondets []vfWitnessVal `json:"nondets"`
	Kind    string         `json:"kind"`
	ID      string         `json:"id"`
}

var vfW *vfWitness
var vfPos int
var vfFailed []string
var vfReached []string

type vfAssumeFailed struct{}
type vfExhausted struct{}

func vfLoadWitness(path string) error {
	b, err := os.ReadFile(path)
	if err != nil {
		return err
	}
	w := &vfWitness{}
	if err := json.Unmarshal(b, w); err != nil {
		return err
	}
	vfW, vfPos, vfFailed, vfReached = w, 0, nil, nil
	return nil
}

// free-running mode (used to confirm data races under go test -race): no
// token scheduler, so that the replay itself adds no synchronisation; draws
// made after the first goroutine was started return 0 without touching shared
// state.
var vfFreeRun = os.Getenv("VF_FREERUN") != ""
var vfFreeStarted bool
var vfFreeWG sync.WaitGroup

func vfNext(kind string) uint64 {
	if vfFreeRun && vfFreeStarted {
		return 0
	}
	if vfW == nil {
		panic("vf: no witness loaded (harness run natively without replay)")
	}
	for vfPos < len(vfW.Nondets) && vfW.Nondets[vfPos].Kind == "internal" {
		vfPos++ // engine-internal choices are not harness inputs
	}
	if vfPos >= len(vfW.Nondets) {
		if vfW.Kind == "race" {
			// a race witness ends where the race was seen: run on with arbitrary inputs
			return 0
		}
		panic(vfExhausted{})
	}
	v := vfW.Nondets[vfPos]
	vfPos++
	return v.Value
}

func vfByte() byte  { return byte(vfNext("byte")) }
func vfU16() uint16 { return uint16(vfNext("u16")) }
func vfU32() uint32 { return uint32(vfNext("u32")) }
func vfI64() int64  { return int64(vfNext("i64")) }
func vfU64() uint64 { return vfNext("u64") }
func vfInt() int    { return int(int64(vfNext("i64"))) }
func vfBool() bool  { return vfNext("bool") != 0 }
func vfBytes(n int) []byte {
	b := make([]byte, n)
	for i := range b {
		b[i] = vfByte()
	}
	return b
}
func vfString(n int) string { return string(vfBytes(n)) }

// vfAlignedBytes returns n witness bytes in a buffer whose address is r mod 8.
func vfAlignedBytes(n int, r int) []byte {
	raw := make([]byte, n+16)
	off := 0
	for (int(uintptr(unsafe.Pointer(&raw[off]))) & 7) != (r & 7) {
		off++
	}
	b := raw[off : off+n : off+n]
	for i := range b {
		b[i] = vfByte()
	}
	return b
}

func vfChoose(n int) int { return int(vfNext("choose")) }

func vfAssume(b bool) {
	if !b {
		panic(vfAssumeFailed{})
	}
}

var vfDigest []string

func vfDigestString() string {
	out := ""
	for i, d := range vfDigest {
		if i > 0 {
			out += ","
		}
		out += d
	}
	return out
}

func vfAssert(b bool, id string) {
	vfDigest = append(vfDigest, fmt.Sprintf("%s=%v", id, b))
	if !b {
		vfFailed = append(vfFailed, id)
		panic(fmt.Sprintf("VF-ASSERT-FAILED %s", id))
	}
}

func vfReach(id string) {
	vfReached = append(vfReached, id)
	if vfParam("twin", 0) == 1 {
		vfAssert(false, "twin-"+id)
	}
}

// vfAllocBound: natively the bytes allocated from here on are measured and
// compared (generously) with the declared per-allocation bound.
var vfAllocK int
var vfAllocBase uint64

func vfAllocBound(k int) {
	var ms runtime.MemStats
	runtime.ReadMemStats(&ms)
	vfAllocK, vfAllocBase = k, ms.TotalAlloc
}

func vfAllocExceeded() string {
	if vfAllocK == 0 {
		return ""
	}
	var ms runtime.MemStats
	runtime.ReadMemStats(&ms)
	d := ms.TotalAlloc - vfAllocBase
	if d > uint64(8*vfAllocK+16384) {
		return fmt.Sprintf("alloc-exceeded %d bytes allocated, declared per-allocation bound %d", d, vfAllocK)
	}
	return ""
}
func vfParam(name string, def int) int {
	if vfW != nil {
		if v, ok := vfW.Params[name]; ok {
			return v
		}
	}
	return def
}

func vfAllEq(a, b []byte) bool {
	if len(a) != len(b) {
		return false
	}
	for i := range a {
		if a[i] != b[i] {
			return false
		}
	}
	return true
}
func vfStrEq(a, b string) bool { return a == b }
func vfIte(c bool, a, b int) int {
	if c {
		return a
	}
	return b
}
func vfAnd(a, b bool) bool     { return a && b }
func vfOr(a, b bool) bool      { return a || b }
func vfImplies(a, b bool) bool { return !a || b }
func vfConcretize(x int) int   { return x }
func vfNote(s string)          {}

// vfTime returns an arbitrary time.Time: instant 0 is the zero Time.
func vfTime() time.Time {
	v := vfI64()
	if v == 0 {
		return time.Time{}
	}
	return time.Unix(0, 0).Add(time.Duration(v))
}

// vfClockMaxStep bounds the model clock's progress between two readings
// (no effect natively: the real clock is used).
func vfClockMaxStep(ns int64) {}

// vfTimerBy reports whether the timer the calling goroutine armed last (if
// any) expires no later than deadline on the model clock. Natively (replay) the
// real clock stands in: the call is made right after the timed-out operation
// returned, which must be no later than the deadline plus scheduling slack.
func vfTimerBy(deadline time.Time) bool {
	return time.Now().Before(deadline.Add(300 * time.Millisecond))
}

// vfUnwind declares an unwinding bound (loop-head visits per call frame) for
// the rest of the path; natively a watchdog in the replay driver plays its role.
func vfUnwind(n int) {}

// ---- threads (native replay side) ----
//
// The engine records every scheduling decision as a "sched" entry holding the
// id of the goroutine that runs next. Natively a token is passed accordingly:
// a goroutine runs only while it holds the token, except that a goroutine
// blocked inside the library (detected by a watchdog timeout) is skipped and,
// once unblocked, runs on until its next vfYield, where it waits for the token.

type vfThread struct {
	id   int
	turn chan struct{}
	done bool
}

var vfSched struct {
	mu      chan struct{} // 1-slot lock for the fields below
	threads []*vfThread
	holder  int
	arrived chan int // a goroutine reached a scheduling point (its id)
	active  bool
	gen     int
}

func vfSchedInit() {
	vfSched.mu = make(chan struct{}, 1)
	vfSched.mu <- struct{}{}
	vfSched.threads = []*vfThread{{id: 0, turn: make(chan struct{}, 1)}}
	vfSched.holder = 0
	vfSched.active = true
	vfSched.gen = 0
}

const vfBlockTimeout = 300 * time.Millisecond

// vfGive hands the token to thread id and starts a watchdog that treats the
// thread as blocked inside the library when it does not reach a scheduling
// point in time.
var vfDebug = os.Getenv("VF_DEBUG") != ""

func vfDbg(f string, a ...interface{}) {
	if vfDebug {
		fmt.Fprintf(os.Stderr, "[vf] "+f+"\n", a...)
	}
}

func vfGive(id int) {
	vfDbg("give -> %d", id)
	<-vfSched.mu
	vfSched.holder = id
	t := vfSched.threads[id]
	vfSched.mu <- struct{}{}
	vfArm(id)
	select {
	case t.turn <- struct{}{}:
	default:
	}
}

// vfArm (re)starts the watchdog for the goroutine that now runs with the token.
func vfArm(id int) {
	<-vfSched.mu
	vfSched.gen++
	gen := vfSched.gen
	t := vfSched.threads[id]
	vfSched.mu <- struct{}{}
	go func() {
		time.Sleep(vfBlockTimeout)
		<-vfSched.mu
		stale := vfSched.gen != gen || vfSched.holder != id || t.done
		vfSched.mu <- struct{}{}
		if stale || id == 0 {
			return
		}
		// blocked inside the library: schedule on its behalf
		next := vfNextSched()
		vfDbg("watchdog: %d blocked, next=%d", id, next)
		if next >= 0 && next != id {
			vfGive(next)
		}
	}()
}

// vfNextSched reads the next scheduling decision from the witness (-1: none).
func vfNextSched() int {
	defer func() { recover() }()
	for vfW != nil && vfPos < len(vfW.Nondets) && vfW.Nondets[vfPos].Kind == "internal" {
		vfPos++
	}
	if vfW == nil || vfPos >= len(vfW.Nondets) {
		return -1
	}
	if vfW.Nondets[vfPos].Kind != "sched" {
		return -1
	}
	v := vfW.Nondets[vfPos].Value
	vfPos++
	return int(v)
}

// vfAcquire waits until this goroutine holds the token.
func vfAcquire(me int) {
	for {
		<-vfSched.mu
		h := vfSched.holder
		vfSched.mu <- struct{}{}
		if h == me {
			return
		}
		select {
		case <-vfSched.threads[me].turn:
		case <-time.After(5 * time.Second):
			panic("vf: goroutine never scheduled again in replay; blocked: " + vfBlockedSites())
		}
	}
}

func vfMe() int {
	// goroutine identity: the harness passes it explicitly through vfCurrent
	return vfCurrent()
}

var vfGID = map[int64]int{}

func vfCurrent() int {
	<-vfSched.mu
	id, ok := vfGID[vfGoroutineID()]
	vfSched.mu <- struct{}{}
	if !ok {
		return 0
	}
	return id
}

func vfGoroutineID() int64 {
	var buf [64]byte
	n := runtime.Stack(buf[:], false)
	// "goroutine 123 [running]:"
	var id int64
	for _, c := range buf[10:n] {
		if c < '0' || c > '9' {
			break
		}
		id = id*10 + int64(c-'0')
	}
	return id
}

// vfYield is a scheduling point (the transport model calls it on entry to
// every operation).
func vfYield() {
	if vfFreeRun {
		runtime.Gosched()
		return
	}
	if !vfSched.active || len(vfSched.threads) < 2 {
		return
	}
	me := vfMe()
	vfAcquire(me)
	next := vfNextSched()
	vfDbg("yield me=%d next=%d pos=%d", me, next, vfPos)
	if next >= 0 && next != me {
		vfGive(next)
		vfAcquire(me)
	}
	vfArm(me)
}

// vfGo starts a goroutine of the harness.
func vfGo(f func()) {
	if vfFreeRun {
		if !vfFreeStarted {
			vfFreeStarted = true
		}
		vfFreeWG.Add(1)
		go func() {
			defer vfFreeWG.Done()
			defer func() {
				if r := recover(); r != nil {
					vfThreadPanic(r)
				}
			}()
			f()
		}()
		return
	}
	if !vfSched.active {
		vfSchedInit()
		<-vfSched.mu
		vfGID[vfGoroutineID()] = 0
		vfSched.mu <- struct{}{}
	}
	<-vfSched.mu
	t := &vfThread{id: len(vfSched.threads), turn: make(chan struct{}, 1)}
	vfSched.threads = append(vfSched.threads, t)
	vfSched.mu <- struct{}{}
	go func() {
		<-vfSched.mu
		vfGID[vfGoroutineID()] = t.id
		vfSched.mu <- struct{}{}
		vfAcquire(t.id)
		vfArm(t.id)
		defer func() {
			r := recover()
			if r != nil {
				vfThreadPanic(r)
			}
			// thread end: a scheduling decision
			vfAcquire(t.id)
			<-vfSched.mu
			t.done = true
			vfSched.mu <- struct{}{}
			next := vfNextSched()
			vfDbg("exit me=%d next=%d", t.id, next)
			if next >= 0 {
				vfGive(next)
			} else {
				vfGive(0)
			}
		}()
		f()
	}()
	vfYield()
}

var vfThreadPanicCh = make(chan interface{}, 8)

func vfThreadPanic(r interface{}) {
	select {
	case vfThreadPanicCh <- r:
	default:
	}
}

// vfJoin waits for all goroutines started with vfGo.
func vfJoin() {
	if vfFreeRun {
		vfFreeWG.Wait()
		return
	}
	if !vfSched.active {
		return
	}
	for {
		select {
		case r := <-vfThreadPanicCh:
			panic(r)
		default:
		}
		<-vfSched.mu
		all := true
		for _, t := range vfSched.threads[1:] {
			if !t.done {
				all = false
			}
		}
		vfSched.mu <- struct{}{}
		if all {
			select {
			case r := <-vfThreadPanicCh:
				panic(r)
			default:
			}
			return
		}
		vfAcquire(0)
		next := vfNextSched()
		vfDbg("join next=%d", next)
		if next > 0 {
			vfGive(next)
		} else {
			// no decision left: let everybody run freely
			time.Sleep(50 * time.Millisecond)
		}
	}
}

// vfUF is an uninterpreted function for the engine; natively it is the real
// function named by tag.
func vfUF(tag string, in []byte, n int) []byte {
	switch tag {
	case "sha1":
		s := sha1.Sum(in)
		return s[:n]
	}
	panic("vfUF: unknown tag " + tag)
}

// vfTimersFire tells the engine whether timers armed by the library may expire
// on this path (natively: the harness chooses deadlines accordingly).
func vfTimersFire(b bool) {}

// vfSchedBound sets the engine's preemption bound for goroutines the library
// itself starts on this path (0: a goroutine runs only while the others are
// blocked). Natively such goroutines are scheduled by the Go runtime.
func vfSchedBound(n int) {}

// vfSymbolic is true when the harness is executed by the symbolic engine and
// false in a native replay.
func vfSymbolic() bool { return false }

// vfUseReal / vfUseRealPkg: engine directives (no effect natively, where the
// real code always runs).
func vfUseReal(callee string)  {}
func vfUseRealPkg(path string) {}

// vfDeadline: a deadline relative to the clock, from a case split: the zero
// Time (no deadline), one hour ago (already expired), or 1..3 hours ahead
// (three distinct live deadlines). Expressing deadlines relative to time.Now
// keeps the symbolic clock and the native clock in agreement about which of
// them have expired.
func vfDeadline() time.Time {
	switch vfChoose(5) {
	case 0:
		return time.Time{}
	case 1:
		return time.Now().Add(-time.Hour)
	case 2:
		return time.Now().Add(time.Hour)
	case 3:
		return time.Now().Add(2 * time.Hour)
	}
	return time.Now().Add(3 * time.Hour)
}

// vfDeadlinePick: like vfDeadline with an explicit menu of hour offsets
// (0 stands for the zero Time).
func vfDeadlinePick(hours []int) time.Time {
	h := hours[vfChoose(len(hours))]
	if h == 0 {
		return time.Time{}
	}
	return time.Now().Add(time.Duration(h) * time.Hour)
}

// vfBlockedSites lists, from the stacks of all goroutines, the library source
// positions at which a goroutine is parked in a channel operation or a lock
// (native diagnosis of a deadlock found by the engine).
func vfBlockedSites() string {
	buf := make([]byte, 1<<20)
	buf = buf[:runtime.Stack(buf, true)]
	out := ""
	for _, g := range strings.Split(string(buf), "\n\n") {
		lines := strings.Split(g, "\n")
		if len(lines) < 3 {
			continue
		}
		state := ""
		if i := strings.Index(lines[0], "["); i >= 0 {
			state = strings.TrimSuffix(strings.TrimSpace(lines[0][i:]), ":")
		}
		if !strings.Contains(state, "chan send") && !strings.Contains(state, "chan receive") && !strings.Contains(state, "sync.Mutex.Lock") && !strings.Contains(state, "semacquire") {
			continue
		}
		// first frame in a library (non-harness, non-test) file of this package
		for i := 1; i+1 < len(lines); i += 2 {
			if !strings.Contains(lines[i], "github.com/gorilla/websocket.") {
				continue
			}
			loc := strings.TrimSpace(lines[i+1])
			if j := strings.LastIndex(loc, "/"); j >= 0 {
				loc = loc[j+1:]
			}
			if j := strings.Index(loc, " "); j >= 0 {
				loc = loc[:j]
			}
			if strings.HasPrefix(loc, "zz_verif") || strings.HasSuffix(strings.SplitN(loc, ":", 2)[0], "_test.go") {
				continue
			}
			out += state + "@" + loc + " "
			break
		}
	}
	return out
}

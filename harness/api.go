//go:build verif

package websocket

// Harness intrinsics. The symbolic engine intercepts every vf* function by
// name; the bodies below are used only when a witness is replayed natively.

import (
	"encoding/json"
	"fmt"
	"os"
	"time"
	"unsafe"
)

type vfWitnessVal struct {
	Name  string `json:"name"`
	Kind  string `json:"kind"`
	Value uint64 `json:"value"`
	N     int    `json:"n"`
}

type vfWitness struct {
	Harness string         `json:"harness"`
	Params  map[string]int `json:"params"`
	Nondets []vfWitnessVal `json:"nondets"`
	Kind    string         `json:"kind"`
	ID      string         `json:"id"`
}

var vfW *vfWitness
var vfPos int
var vfFailed []string
var vfReached []string

type vfAssumeFailed struct{}
type vfExhausted struct{}

func vfLoadWitness(path string) error {
	b, err := os.ReadFile(path)
	if err != nil {
		return err
	}
	w := &vfWitness{}
	if err := json.Unmarshal(b, w); err != nil {
		return err
	}
	vfW, vfPos, vfFailed, vfReached = w, 0, nil, nil
	return nil
}

func vfNext(kind string) uint64 {
	if vfW == nil {
		panic("vf: no witness loaded (harness run natively without replay)")
	}
	if vfPos >= len(vfW.Nondets) {
		panic(vfExhausted{})
	}
	v := vfW.Nondets[vfPos]
	vfPos++
	return v.Value
}

func vfByte() byte   { return byte(vfNext("byte")) }
func vfU16() uint16  { return uint16(vfNext("u16")) }
func vfU32() uint32  { return uint32(vfNext("u32")) }
func vfI64() int64   { return int64(vfNext("i64")) }
func vfU64() uint64  { return vfNext("u64") }
func vfInt() int     { return int(int64(vfNext("i64"))) }
func vfBool() bool   { return vfNext("bool") != 0 }
func vfBytes(n int) []byte {
	b := make([]byte, n)
	for i := range b {
		b[i] = vfByte()
	}
	return b
}
func vfString(n int) string { return string(vfBytes(n)) }

// vfAlignedBytes returns n witness bytes in a buffer whose address is r mod 8.
func vfAlignedBytes(n int, r int) []byte {
	raw := make([]byte, n+16)
	off := 0
	for (int(uintptr(unsafe.Pointer(&raw[off])))&7) != (r & 7) {
		off++
	}
	b := raw[off : off+n : off+n]
	for i := range b {
		b[i] = vfByte()
	}
	return b
}

func vfChoose(n int) int { return int(vfNext("choose")) }

func vfAssume(b bool) {
	if !b {
		panic(vfAssumeFailed{})
	}
}

func vfAssert(b bool, id string) {
	if !b {
		vfFailed = append(vfFailed, id)
		panic(fmt.Sprintf("VF-ASSERT-FAILED %s", id))
	}
}

func vfReach(id string) {
	vfReached = append(vfReached, id)
	if vfParam("twin", 0) == 1 {
		vfAssert(false, "twin-"+id)
	}
}
func vfAllocBound(k int) {}
func vfParam(name string, def int) int {
	if vfW != nil {
		if v, ok := vfW.Params[name]; ok {
			return v
		}
	}
	return def
}

func vfAllEq(a, b []byte) bool {
	if len(a) != len(b) {
		return false
	}
	for i := range a {
		if a[i] != b[i] {
			return false
		}
	}
	return true
}
func vfStrEq(a, b string) bool { return a == b }
func vfIte(c bool, a, b int) int {
	if c {
		return a
	}
	return b
}
func vfAnd(a, b bool) bool     { return a && b }
func vfOr(a, b bool) bool      { return a || b }
func vfImplies(a, b bool) bool { return !a || b }
func vfConcretize(x int) int   { return x }
func vfNote(s string)          {}

// vfTime returns an arbitrary time.Time: instant 0 is the zero Time.
func vfTime() time.Time {
	v := vfI64()
	if v == 0 {
		return time.Time{}
	}
	return time.Unix(0, 0).Add(time.Duration(v))
}

// vfClockMaxStep bounds the model clock's progress between two readings
// (no effect natively: the real clock is used).
func vfClockMaxStep(ns int64) {}

// vfUnwind declares an unwinding bound (loop-head visits per call frame) for
// the rest of the path; natively a watchdog in the replay driver plays its role.
func vfUnwind(n int) {}

#!/usr/bin/env python3
"""Source of truth for checks.json and manifest_meta.json (run: python3 mkchecks.py && python3 mkmanifest.py)."""
import json

def H(h, w=None, t=300, p=None, note=None):
    e = {"harness": h, "timeout_s": t}
    if w: e["witnesses"] = w
    if p: e["params"] = p
    if note: e["note"] = note
    return e

def TWIN(h, p=None):
    pp = {"twin": 1}
    if p: pp.update(p)
    return {"harness": h, "params": pp, "expect_violation": True, "timeout_s": 120}

STUB_COMMON = [
 "net.Conn -> vfConn (harness/models.go): scripted transport obeying the io.Reader/io.Writer/net.Conn contracts; Read never returns (0,nil)",
 "maskRand / crypto/rand.Reader -> vfRand: every draw yields fresh unconstrained bytes",
 "time.Now/Until/Add/IsZero/NewTimer -> clock model (engine/intrinsics.go): monotone symbolic instants",
 "sync.Mutex/Once/Pool -> engine primitives",
 "strings.Join/Split/TrimSpace/Index*, strconv.Itoa(symbolic), fmt.Errorf -> engine models",
]
STUB_FLATE = "compress/flate -> stored-block RFC 1951 model (harness/model_flate.go); real Huffman/LZ77 output at any level is outside every claim"
ASSUME_COMMON = [
 "transports obey the io.Reader / io.Writer contracts",
 "one goroutine at a time uses the connection in the sequential harnesses",
 "amd64 integer widths (int = 64 bits)",
]
CLOCK = "between two consecutive clock readings less than writeWait/4 of model time passes (otherwise the library legitimately gives up its best-effort close/pong)"

checks = {}
meta = {}

def add(pid, title, quick, thorough, bounds, outside, assumptions, stubs, level_text, level_note, dontcare=None, design_ref=None):
    checks[pid] = {"title": title, "quick": quick, "thorough": thorough, "bounds": bounds, "outside": outside,
                   "assumptions": assumptions, "stubs": stubs, "dontcare": dontcare or []}
    meta[pid] = {"level_text": level_text, "level_note": level_note, "design_ref": design_ref or ("DESIGN.md section 5, " + pid)}

LV = "bounded symbolic verification of the real code: every explored path's assertions are decided for ALL values of the symbolic inputs (payload bytes, mask keys, header bytes, lengths in headers, limits, close codes, clock instants) by z3 / sound term normalisation; message shapes, buffer sizes, programs and fault positions are enumerated exhaustively within the stated bounds; counterexamples are replayed natively before being reported. Not a proof: nothing outside the bounds is claimed. "

add("C01", "round-trip fidelity",
    [H("vfH_rt_e2e", ["rt-e2e-end"], 400), H("vfH_rt_e2e", ["rt-e2e-end"], 400, {"M": 2}), H("vfH_rt_chunk", ["rt-chunk-end"]),
     H("vfH_wire_thresholds", ["thresholds-end"]), H("vfH_mask_kernel", ["mask-kernel-end"], 300, {"N": 40}), H("vfH_trunc_step", ["trunc-step-end"]),
     H("vfH_compress_toggle", ["toggle-end"]), H("vfH_json_rt", ["json-rt-end"]), H("vfH_comp_other_conn", ["comp-other-conn-end"], 400), TWIN("vfH_rt_e2e"), TWIN("vfH_mask_kernel")],
    [H("vfH_rt_e2e", ["rt-e2e-end"], 1800, {"tier": 1}), H("vfH_wire_thresholds", ["thresholds-end"], 900, {"tier": 1}),
     H("vfH_mask_kernel", ["mask-kernel-end"], 900, {"N": 96}), H("vfH_trunc_step", ["trunc-step-end"], 300, {"M": 24})],
    ["quick: 1-2 messages, payload lengths {0,1,W-1,W,W+1,2W,2W+1,2(W+14),2(W+14)+1,2(W+14)+2} for W in {1,8}; thresholds 124..127, 65535, 65536 (server paths); 9 write programs; 5 read configurations (ReadMessage / NextReader with read sizes 1,3,8,200 / JoinMessages; transport chunking max, 1 byte, two reads split at every offset for the short streams); both roles; pool on/off; stored-block compression on/off",
     "maskBytes: every length 0..40 (thorough 0..96), every buffer alignment (symbolic address residue), symbolic key, symbolic start position (any int), symbolic content",
     "truncWriter.Write: one step from every state n in 0..4 with 0..10 (thorough 24) input bytes",
     "two connections sharing the per-level compressor pools (comp_other_conn): a compressed message of 1 or 37 bytes on connection A (3 write programs, compressor output handed over whole or split at 3, 7, 20) hit by a transport fault at write-side operation 0..4 of 3 kinds, then a compressed 5-byte message on a healthy connection B, whose wire must decode to what was sent",
     "thorough: payload lengths up to 300 plus 65534..65537 incl. a client whose write buffer holds the whole frame"],
    ["messages longer than the listed lengths, more than 2 messages per connection, buffer sizes other than those listed",
     "real compress/flate output (any level): only the stored-block model", "WriteJSON/ReadJSON beyond 'an arbitrary io.Writer / io.Reader client' (vfH_json_rt: the encoder writes 1..12 arbitrary bytes in 1-3 Write calls, the decoder reads with sizes 1, 3 or 512 until the message ends)"],
    ASSUME_COMMON, STUB_COMMON + [STUB_FLATE],
    LV + "Round trip = writer Conn -> wire (judged by the RFC reference decoder) -> reader Conn of the opposite role.",
    "trusted: the engine's SSA->SMT translation (validated by native replay of every counterexample and by the seeded-change trials), z3, the stored-block flate model, the transport model")

add("C02", "wire format",
    [H("vfH_rt_e2e", ["rt-e2e-end"], 400), H("vfH_wire_thresholds", ["thresholds-end"]), H("vfH_control_step", ["control-accepted", "control-refused"]),
     H("vfH_mask_keys", ["mask-keys-end"]), H("vfH_compress_toggle", ["toggle-end"]), H("vfH_prepared_seq", ["prepared-seq-end"]), H("vfH_invalid_req", ["invalid-req-end"]), TWIN("vfH_control_step")],
    [H("vfH_rt_e2e", ["rt-e2e-end"], 1800, {"tier": 1}), H("vfH_rt_e2e", ["rt-e2e-end"], 900, {"M": 2}), H("vfH_wire_thresholds", ["thresholds-end"], 900, {"tier": 1})],
    ["as C01 for the write side; WriteControl: message type fully symbolic (all 2^64 ints), payload lengths {0,1,2,124,125,126,130}, symbolic payload, deadline from {none, expired, three distinct live ones} relative to the clock",
     "mask keys: 2 messages x 4 write programs x buffer sizes {2,8}: every client frame's key equals its own fresh 4-byte draw, in order; maskRand is crypto/rand.Reader after package initialisation"],
    ["quality of crypto/rand itself", "real deflate output", "frames longer than the thresholds tested (65537)"],
    ASSUME_COMMON, STUB_COMMON + [STUB_FLATE],
    LV + "The wire is judged by a frame decoder written from RFC 6455 5.2 / RFC 7692 (harness/spec.go), not by the library's reader.",
    "trusted: engine translation, z3, reference decoder (spec.go), stored-block flate model")

add("C03", "reader on any conformant stream",
    [H("vfH_read_e2e", ["read-e2e-end"], 500), H("vfH_read_step_data", ["step-accepted"], 400), H("vfH_rt_chunk", ["rt-chunk-end"]), H("vfH_json_rt", ["json-rt-end"]), H("vfH_abandon_compressed", ["abandon-compressed-end"]), TWIN("vfH_read_e2e")],
    [H("vfH_read_e2e", ["read-e2e-end"], 2400, {"tier": 1}), H("vfH_read_e2e", ["read-e2e-end"], 2400, {"M": 2, "small": 1}),
     H("vfH_read_step_data", ["step-accepted"], 1500, {"tier": 1})],
    ["streams from the reference encoder: 1 message (thorough 2) of length {0,1,5} (thorough + 2,9,130) in 7 fragmentation shapes incl. empty frames, a ping/pong before / between / after the fragments, stored-block compressed or not, all 2^32 mask keys per frame (symbolic), both reader roles",
     "read programs: ReadMessage | NextReader + reads of 1,3,200 bytes | abandon after 0,1,n-1 bytes | JoinMessages; chunking: max, 1 byte, split at every structural boundary (+1)",
     "inductive header step: from an arbitrary reader state (final flag, running length, limit, mask position/key symbolic) every first-two-byte value, every 16/64-bit extended length, every key"],
    ["deflate streams with fixed/dynamic Huffman blocks or produced by a real deflater: only stored blocks are modelled", "more than 2 messages / 3 fragments end to end (the inductive step covers header handling for any history)", "ReadJSON beyond an io.Reader client"],
    ASSUME_COMMON + [CLOCK], STUB_COMMON + [STUB_FLATE],
    LV + "The stream comes from an independent reference encoder; the inductive step makes the header handling history-independent.",
    "trusted: engine translation, z3, reference encoder, flate model")

add("C04", "framing violations are fail-stop",
    [H("vfH_read_step_data", ["step-protocol-error", "step-accepted", "step-limit-error"], 500), H("vfH_read_step_ctl", ["ctl-protocol-error", "ctl-close", "ctl-ping", "ctl-pong"], 500),
     H("vfH_violation_after_message", ["violation-after-message-end"]), TWIN("vfH_read_step_data"), TWIN("vfH_read_step_ctl")],
    [H("vfH_read_step_data", ["step-protocol-error"], 1800, {"tier": 1}), H("vfH_read_step_ctl", ["ctl-protocol-error", "ctl-close"], 2400, {"tier": 1})],
    ["inductive step through the public API (NextReader when idle, message Read inside a fragmented message) from an arbitrary reader state: all 2^16 values of the first two header bytes, all 16/64-bit extended lengths, all keys, either role, extension negotiated or not",
     "control frames: payload lengths {0,1,2,3,6} (thorough + 4,5,8,17,124,125), symbolic payload, all 2^16 close codes, close reasons <= 4 arbitrary bytes (all UTF-8 malformations of that length; longer reasons ASCII), recording / default / failing handlers",
     "read buffer 125 bytes, frame preceded by 0 or 3 (thorough 124) consumed bytes, transport chunking max / 1 byte"],
    ["the text of the error message and of the close reason sent"],
    ASSUME_COMMON + [CLOCK, "no other goroutine holds the write lock while the reader sends its best-effort close"], STUB_COMMON,
    LV + "One inductive step from an arbitrary state satisfying the reader invariant covers every prefix history.",
    "trusted: engine translation, z3, reference verdict (h_readstep.go / spec.go); the reader invariant (documented in DESIGN.md) is assumed for the pre-state and re-established by every accepting step",
    ["RSV1 on a control or continuation frame while permessage-deflate is negotiated", "a 1-byte close body", "close codes 1012-1014"])

add("C05", "no silent truncation",
    [H("vfH_fault_read", ["fault-read-failed-message"], 200, {"focus": 1}), H("vfH_fault_read", ["fault-read-failed-message", "fault-read-all-complete"], 400), TWIN("vfH_fault_read")],
    [H("vfH_fault_read", ["fault-read-failed-message"], 2400, {"tier": 1})],
    ["focused program (run first, on its own): a message whose payload embeds a well-formed text frame and a close frame is abandoned after one byte while a transient fault interrupts the skip at every offset: what is left of the payload is never parsed as a frame (kept separate because a reader that swallows the skip error parses symbolic payload as headers, an explosion in which the general program may not meet the violating path within its budget)",
     "4 stream shapes (unfragmented + fragmented with ping; fragmented with a non-final frame larger than the read buffer; 16-bit length larger than the read buffer; stored-block compressed fragmented) x every cut offset (quick: all offsets for streams <= 40 bytes, every structural boundary +-1 for the long ones; thorough: all offsets) x 4 fault kinds (EOF after the bytes, EOF together with the last bytes, arbitrary error, timeout) x chunking {max, 1 byte, first header alone} x {ReadMessage, NextReader + reads of 1, 125, 250 bytes}; 3 further NextReader calls after the failure"],
    ["quick tier: 3 later calls after the failure; the thorough tier runs one configuration up to the documented panic at the 1000th failed read", "transports that violate the io.Reader contract"],
    ASSUME_COMMON, STUB_COMMON + [STUB_FLATE],
    LV + "Fault position, kind and chunking are enumerated; payloads and keys are symbolic.",
    "trusted: engine translation (incl. the real bufio.Reader executed from SSA), transport fault model")

add("C06", "read limit",
    [H("vfH_limit_history", ["limit-history-end"]), H("vfH_read_step_data", ["step-accepted", "step-limit-error"], 500), H("vfH_violation_after_message", ["violation-after-message-end"]), H("vfH_frame_nopanic", ["frame-nopanic-end"], 400), TWIN("vfH_limit_history")],
    [H("vfH_read_step_data", ["step-limit-error"], 1800, {"tier": 1})],
    ["inductive arithmetic: limit L, running length and the frame's claimed length fully symbolic (all 64-bit values incl. top bit set and sums that overflow), every allocation on the path bounded by 600 bytes (AllocBound)",
     "memory never depends on the claimed length: one data frame claiming 1, 2 or >= 16384 bytes (up to 2^64-1, every length form) followed by 2 payload bytes, with no limit / limit 64 / limit 2^40, read by ReadMessage, NextReader+Read and JoinMessages under an allocation bound of 1100 bytes",
     "histories: symbolic limit 1..12; message A (5 fragmentations, optional ping) read fully / one byte / not at all; message B within the limit; message C over the limit, optionally with a ping between its fragments whose handler re-asserts SetReadLimit(L); both roles; chunking max / 1 byte"],
    ["allocations inside stubbed code (io.CopyN's pooled 8 KiB discard buffer is real and constant)", "histories longer than 3 messages (covered by the inductive step for the arithmetic)"],
    ASSUME_COMMON + [CLOCK], STUB_COMMON,
    LV + "The 1009 close is required only when the running sum crosses the limit; for a top-bit-set length and an overflowing sum the frame must be refused with ErrReadLimit before its payload (close frame optional), as C04 exempts the top-bit case.",
    "trusted: engine translation, z3 (64-bit bit-vector arithmetic)")

add("C08", "control frames and handlers",
    [H("vfH_read_step_ctl", ["ctl-ping", "ctl-pong", "ctl-close"], 500), H("vfH_read_e2e", ["read-e2e-end"], 500), TWIN("vfH_read_step_ctl")],
    [H("vfH_read_step_ctl", ["ctl-ping", "ctl-pong", "ctl-close"], 2400, {"tier": 1}), H("vfH_read_e2e", ["read-e2e-end"], 2400, {"tier": 1})],
    ["one step per control frame from idle and from inside a fragmented message: payload lengths {0,1,2,3,6} (thorough up to 125), symbolic payload and key, all close codes, recording / default / failing handlers, both roles",
     "end to end: control frame before, between and after fragments in 7 fragmentation shapes; exactly-once, wire order, exact payload, position relative to delivered data bytes and messages"],
    ["reason texts between 5 and 123 bytes with non-ASCII content", "handlers that themselves misuse the connection"],
    ASSUME_COMMON + [CLOCK, "no other goroutine holds the write lock while the default handlers answer"], STUB_COMMON + [STUB_FLATE],
    LV, "trusted: engine translation, z3, reference decoder")

add("C09", "nothing after close",
    [H("vfH_close_seq", ["close-seq-end"]), H("vfH_close_sched", ["close-sched-end"], 300), H("vfH_prepared_seq", ["prepared-seq-end"]), TWIN("vfH_close_seq"), TWIN("vfH_close_sched")],
    [H("vfH_close_sched", ["close-sched-end"], 900, {"preempt": 3})],
    ["sequential programs: optional complete message, optional open data writer (nothing / one frame flushed and more buffered), close written by 7 paths (WriteControl with any of 5 deadlines (none / expired / 3 live), WriteMessage, NextWriter+Write+Close, prepared close, default close handler, protocol-error close, read-limit close), then 2 of the 7 write APIs and Write/Close of the open writer; both roles; compression negotiated or not"],
    ["interleavings of concurrent writers / WriteControl callers / reader handlers (the schedule quantifier of the property): see the note in MANIFEST", "more than 2 later calls"],
    ASSUME_COMMON + [CLOCK], STUB_COMMON + [STUB_FLATE],
    LV + "Only the sequential half of the property (all programs, one goroutine at a time) is decided; the schedule quantifier is not.",
    "trusted: engine translation; concurrency is outside this check")

add("C10", "write failures fail-stop",
    [H("vfH_fault_write", ["fault-write-end"], 400), H("vfH_invalid_req", ["invalid-req-end"]), H("vfH_deadline", ["deadline-end"]), H("vfH_control_step", ["control-accepted", "control-refused"]), H("vfH_conc_fault", ["conc-fault-end"]), TWIN("vfH_fault_write"), TWIN("vfH_invalid_req")],
    [H("vfH_fault_write", ["fault-write-end"], 3000, {"tier": 1}), H("vfH_conc_fault", ["conc-fault-end"], 900, {"preempt": 3, "tier": 1})],
    ["2-step write programs (6 programs incl. prepared, implicit close, WriteControl; payloads 1 and 37 bytes, buffer 4) x every index k of a write-side transport operation (SetWriteDeadline, Write, each Write of a two-buffer frame) x {error, timeout, short write + error}; then 2 later calls out of the 7 write APIs and Close of the open writer",
     "invalid requests: message type fully symbolic outside {1,2,8,9,10} through NextWriter / WriteMessage / WriteControl / NewPreparedMessage; control payload of 126 bytes through every API; control message larger than the buffer; before or after a valid message; with an instrumented pool",
     "fault while a second caller waits (conc_fault): a data writer and a WriteControl caller run as two goroutines, write-side operation 0..1 (thorough: 0..5, data message of 3 or 45 bytes through WriteMessage or NextWriter + pieces) fails in one of 3 ways; on every schedule within the preemption bound (quick 2, thorough 3) nothing reaches the transport after the failed operation and later calls fail",
     "deadlines: 3 steps of SetWriteDeadline / WriteControl with deadlines from {none, expired, three distinct live ones} / data messages; every transport Write is preceded by SetWriteDeadline with the deadline in force"],
    ["transports that transmit more than they report", "programs longer than 2-3 steps"],
    ASSUME_COMMON, STUB_COMMON + [STUB_FLATE],
    LV, "trusted: engine translation, transport fault model")

add("C19", "PreparedMessage equals WriteMessage",
    [H("vfH_prepared_seq", ["prepared-seq-end"]), H("vfH_conc_shared", ["conc-shared-end"]), H("vfH_rt_e2e", ["rt-e2e-end"], 400), TWIN("vfH_prepared_seq")],
    [H("vfH_prepared_seq", ["prepared-seq-end"], 2400, {"tier": 1}), H("vfH_conc_shared", ["conc-shared-end"], 900, {"preempt": 3})],
    ["message types {1,2,8,9,10}, payload lengths {0,1,14,40} (thorough + 125,126,4096,4097,8200), caller's slice overwritten with arbitrary bytes after creation, 2 (thorough 3) sends to 3 connections of differing role / negotiation with EnableWriteCompression / SetCompressionLevel changes between sends"],
    ["concurrent sends (schedule quantifier)", "real deflate output"],
    ASSUME_COMMON, STUB_COMMON + [STUB_FLATE],
    LV + "Each connection's wire is decoded by the reference decoder and compared with the original payload.",
    "trusted: engine translation, reference decoder, flate model; concurrency is outside this check")

add("C20", "pooled write buffers",
    [H("vfH_pool_seq", ["pool-seq-end"], 400), H("vfH_invalid_req", ["invalid-req-end"]), H("vfH_conc_shared", ["conc-shared-end"]), H("vfH_rt_e2e", ["rt-e2e-end"], 400), TWIN("vfH_pool_seq")],
    [H("vfH_conc_shared", ["conc-shared-end"], 900, {"preempt": 3})],
    ["2-step write programs (7 programs incl. invalid-free abandoned writers, prepared, WriteControl) with optional transport fault at operations 0..4 of 3 kinds; pool model that hands back nil or the last returned buffer and overwrites every returned buffer with arbitrary bytes; both roles; compression model on/off"],
    ["connections sharing a pool concurrently (schedule quantifier)", "pools whose Get returns foreign values"],
    ASSUME_COMMON, STUB_COMMON + [STUB_FLATE],
    LV + "A use of a buffer after Put would show up as arbitrary bytes on the wire, which the reference decoder rejects.",
    "trusted: engine translation, pool model; writes into a released buffer that are never read back are not observable by this check")

add("C11", "concurrency contract",
    [H("vfH_conc_frames", ["conc-frames-end"], 400, {"preempt": 1}), H("vfH_conc_close", ["conc-close-end"]), H("vfH_conc_shared", ["conc-shared-end"]),
     H("vfH_close_sched", ["close-sched-end"], 300), H("vfH_deadline", ["deadline-end"]), H("vfH_conc_fault", ["conc-fault-end"]), H("vfH_wc_blocked", ["wc-blocked-end"]), TWIN("vfH_conc_frames", {"preempt": 1}), TWIN("vfH_conc_shared")],
    [H("vfH_conc_frames", ["conc-frames-end"], 1800, {"preempt": 2, "tier": 1}), H("vfH_close_sched", ["close-sched-end"], 900, {"preempt": 3}), H("vfH_conc_shared", ["conc-shared-end"], 900, {"preempt": 3}), H("vfH_conc_fault", ["conc-fault-end"], 900, {"preempt": 3, "tier": 1})],
    ["goroutines: 1 writer (a 43-byte message in 3 frames, on a server one frame written as two buffers), 1 reader (ping answered by the default handler, then a data message), 1 WriteControl caller (zero deadline / a deadline that may expire while the writer holds the connection / two calls), or Close(); 2 connections sharing one PreparedMessage and one buffer pool",
     "schedules: scheduling points at every transport operation (which may block arbitrarily long), goroutine start/end and every blocking lock or channel operation; context bound: quick 1 preemption (conc_frames) / 2 (others), thorough 2-3; timers may fire at any scheduling point after they were armed",
     "transport fault under concurrency (conc_fault): a data writer and a WriteControl caller (zero / far deadline) run concurrently while write-side operation 0..1 (thorough: 0..5, data message of 3 or 45 bytes through WriteMessage or NextWriter + pieces) fails in one of 3 ways: nothing reaches the transport afterwards on any schedule, one of the calls reports it, later calls fail",
     "connection held for ever (wc_blocked): the write lock is taken and never released, WriteControl (ping / pong / close) with a deadline 1..3 ms ahead must return a timeout error (a wait without a timer shows up as a deadlock), its wait ends by the deadline on the model clock, nothing is written, the connection works once the lock is released",
     "data races: vector-clock happens-before detector over every heap cell access of the interpreted code on every explored schedule; a reported race is replayed natively under go test -race"],
    ["'returns by that deadline' as a real-time bound: time is abstracted (the timeout path is taken whenever the timer wins, writes nothing and does not poison); what is decided is that the wait WriteControl gave up on was armed to end no later than its deadline on the model clock (vfTimerBy), and that with the connection held for ever it does come back with a timeout (wc_blocked); with a holder that lets go later than the deadline a WriteControl that waits without a timer is still not caught", "more than 3 library goroutines + main, more preemptions than the bound", "races inside the real compress/flate pools (modelled)"],
    ASSUME_COMMON[:1] + [CLOCK, "preemption only at scheduling points is sound because the explored executions are checked to be data-race-free"], STUB_COMMON + [STUB_FLATE],
    LV + "Interleavings are enumerated by a nondeterministic scheduler inside the symbolic executor (context-bounded); data stay symbolic on every interleaving; schedule counterexamples are replayed natively with a token-passing scheduler.",
    "trusted: engine translation, the scheduler's choice of scheduling points, the happens-before model of channels / sync.Mutex / sync.Once / pools")

add("C12", "server handshake",
    [H("vfH_upgrade_logic", ["upgrade-success", "upgrade-refused", "upgrade-post-hijack-failure"], 600), H("vfH_tokenlist_diff", ["tokenlist-end"], 300), H("vfH_key_diff", ["key-diff-end"], 300), H("vfH_offer_variants", ["offer-variants-end"], 300), TWIN("vfH_upgrade_logic")],
    [H("vfH_upgrade_logic", ["upgrade-success", "upgrade-refused"], 3000, {"tier": 1}), H("vfH_tokenlist_diff", ["tokenlist-end"], 1500, {"tier": 1, "mode": 0, "N": 5, "L2": 0}), H("vfH_tokenlist_diff", ["tokenlist-end"], 2000, {"tier": 1, "mode": 0, "N": 3, "L2": 2}), H("vfH_tokenlist_diff", ["tokenlist-end"], 1500, {"tier": 1, "mode": 1, "NEL": 2, "OWS": 3})],
    ["Upgrade executed on requests one (thorough: two) dimension(s) away from a valid handshake: method, Connection / Upgrade token lists (symbolic case and whitespace, extra tokens, several header lines, near-miss tokens), version, key (missing, 24 arbitrary characters, base64 of 15 / 17 bytes; valid keys = base64 of 16 symbolic bytes), origin, CheckOrigin, subprotocol offers x server lists, application response headers with 3 arbitrary bytes (incl. CR/LF), extension offers x EnableCompression, hijack failure, transport fault at each of the first 3 post-hijack operations, HandshakeTimeout on/off",
     "tokenListContainsValue against the reference for every header line of <= 4 arbitrary bytes (thorough: <= 5 bytes on one line; <= 3 bytes plus a second line of <= 2 bytes) and for grammar templates of 1-2 list elements (the token in any case, near misses, another token) with 0-1 (thorough 0-2) symbolic white-space characters around the comma and an optional second line; in the two-dimension tier the valid default key is one fixed key; isValidChallengeKey against the reference for every string of length 0,1,20,22,23,24,25,28 (real encoding/base64 decoder executed from SSA)"],
    ["net/http's own request parsing, header canonicalisation and http.Error rendering (modelled at object level)", "SHA-1 is an uninterpreted function: that the digest input is key ++ the RFC GUID and its placement are checked, the hash itself is not", "requests more than two dimensions away from valid"],
    ["header values contain no CR/LF on the request side (net/http never delivers them)", "url.Parse answers as constructed for the template origins only"], STUB_COMMON + ["net/http ResponseWriter/Hijacker/ResponseController/Error -> recorder models (harness/models_http.go)", "crypto/sha1 -> uninterpreted function (congruent, collision-free)", "net/url.Parse -> answers from the harness's template knowledge"],
    LV + "Reduced scope: the decision logic and the response bytes of Upgrade; HTTP parsing is outside.",
    "trusted: engine translation, z3, object-level net/http model, reference head parser and predicates",
    ["a Sec-WebSocket-Version list that contains 13 among other versions", "malformed token lists (empty elements)"])

add("C07", "untrusted input never panics / hangs / over-allocates",
    [H("vfH_parsers_nopanic", ["parsers-end"], 400), H("vfH_frame_nopanic", ["frame-nopanic-end"], 300), H("vfH_read_step_data", ["step-accepted", "step-protocol-error"], 500),
     H("vfH_read_step_ctl", ["ctl-protocol-error", "ctl-close"], 500), H("vfH_connect_reply", ["connect-reply-end"]), H("vfH_dial_reply", ["dial-reply-end"], 400), H("vfH_socks_reply", ["socks-tunnel", "socks-refused"], 400), TWIN("vfH_parsers_nopanic"), TWIN("vfH_frame_nopanic")],
    [H("vfH_parsers_nopanic", ["parsers-end"], 3000, {"N": 8}), H("vfH_read_step_data", ["step-accepted"], 1800, {"tier": 1}), H("vfH_read_step_ctl", ["ctl-close"], 2400, {"tier": 1})],
    ["frame bytes: the inductive reader step (any state, every first-two-byte value, every extended length, every key, control payloads per C04) runs with runtime checks (nil, index, slice, divide, type assertion, explicit panic) as feasibility queries, an allocation bound of 600-700 bytes and the step structure 'an error is returned or input is consumed'; plus one data frame of claimed length 1, 2 or >= 16384 (up to 2^64-1, any length form) followed by 2 bytes, read by ReadMessage / NextReader+Read / JoinMessages with allocation bound 1100 bytes and unwinding bound 200",
     "header values: tokenListContainsValue, parseExtensions, nextTokenOrQuoted, equalASCIIFold, Subprotocols, isValidChallengeKey, hostPortNoPort, selectSubprotocol on every string of <= 6 (thorough 8) arbitrary bytes; unwinding bound 4n+16, allocation bound 64+4n",
     "CONNECT reply and Dial reply: arbitrary 3-digit status, optional space and 2-byte reason phrase, header values from templates",
     "SOCKS5 proxy replies: arbitrary method-selection, authentication-status and reply-head bytes (see C18) with allocation bound 4096 and unwinding bound 300"],
    ["panics, loops and allocation inside net/http, net/url, compress/flate, encoding/json (modelled or not executed)", "wall-clock hangs (the unwinding bound stands in for them)", "arbitrary compressed payloads (outside the stored-block model)", "mid-range claimed lengths 3..16383 in the ReadMessage program (covered for header handling by the inductive step)"],
    ASSUME_COMMON + [CLOCK], STUB_COMMON + ["net/http.ReadResponse / Request.Write -> object-level models consuming/producing the head bytes"],
    LV + "The assertion is implicit: no feasible path ends in a panic, exceeds its declared unwinding bound or allocates beyond the declared bound.",
    "trusted: engine's encoding of Go's runtime checks, z3; stubbed packages are outside")

DIAL_BOUNDS = ["DialContext executed on configurations and replies one (thorough: two) dimension(s) away from a plain successful ws:// dial: URL shapes (port, IPv6 literal, query, empty path), bad schemes (http, any two lower-case letters) and userinfo, wss with ServerName / InsecureSkipVerify / NetDialTLSContext and TLS handshake / verification failure, NetDial / NetDialContext / default dialer, http / https / socks5 proxy with none / user / user:password credentials and ws / wss backend, Subprotocols, EnableCompression, HandshakeTimeout, context deadline (symbolic), benign caller headers, each protocol-owned caller header in canonical / RFC / lower-case spelling, reply status (any 3-digit code, optional reason), Upgrade / Connection line variants, wrong (28 arbitrary characters) or missing Accept, extension reply variants, subprotocol, refused handshake with a body of 0 / 10 / 1024 / 1500 bytes, dial error, request write error, transport fault at each of the first 3 write-side operations, two server frames glued to the 101 response"]
DIAL_OUT = ["Request.Write serialisation, http.ReadResponse parsing, cookies: modelled at object level on template inputs (net/url.Parse itself is executed from its SSA on the template URL strings)", "certificate validation itself (crypto/tls), environment proxies, DNS", "SOCKS5: replies outside the RFC 1928 layout bounds of vfH_socks_reply (bound-address FQDN lengths other than 0/3/255), GSSAPI and other methods, cancellation of the context during the negotiation (x/net's watcher goroutine is scheduled non-preemptively and never fires)", "SHA-1 as a function (uninterpreted, collision-free)"]
DIAL_STUBS = STUB_COMMON + ["net/url: NOT stubbed in dial_logic - url.Parse and the URL methods are executed from their SSA (dial_reply / negotiate keep the template model)", "(*http.Request).Write / http.ReadResponse -> object-level models that produce / consume the head bytes on the scripted connection", "crypto/tls Client/HandshakeContext/VerifyHostname/Close -> call-trace model (Close closes the wrapped connection, as documented)", "context, httptrace -> harness types", "crypto/sha1 -> uninterpreted function", "golang.org/x/net/proxy and golang.org/x/net/internal/socks: NOT stubbed - executed from their SSA together with proxyFromURL"]

add("C14", "client handshake",
    [H("vfH_dial_logic", ["dial-success", "dial-refused", "dial-malformed", "dial-forbidden-header"], 600), H("vfH_tokenlist_diff", ["tokenlist-end"], 300), TWIN("vfH_dial_logic")],
    [H("vfH_dial_logic", ["dial-success", "dial-refused"], 3400, {"tier": 1})],
    DIAL_BOUNDS, DIAL_OUT, ["transports obey the io contracts", "the reply head is well-formed HTTP for the template values"], DIAL_STUBS,
    LV + "Reduced scope: the decision logic of Dial and the request object handed to net/http; serialisation and URL parsing are outside.",
    "trusted: engine translation, z3, object-level models of net/http, net/url, crypto/tls")

HS_STUBS = STUB_COMMON + ["net/http ResponseWriter/Hijacker/ResponseController/Error -> recorder models (harness/models_http.go)", "crypto/sha1 -> uninterpreted function (congruent, collision-free)", "net/url.Parse -> answers from the harness's template knowledge"]

add("C13", "default origin policy (reduced)",
    [H("vfH_fold_diff", ["fold-diff-end"], 300, {"N": 3}), H("vfH_origin_wiring", ["origin-accepted", "origin-refused"], 300), H("vfH_origin_urls", ["origin-url-accepted", "origin-url-refused"], 300), H("vfH_origin_urls", ["origin-url-accepted", "origin-url-refused"], 400, {"sym": 2}), H("vfH_origin_urls", ["origin-url-accepted", "origin-url-refused"], 500, {"sym": 2, "rep": 1}), H("vfH_upgrade_logic", ["upgrade-success", "upgrade-refused"], 600, {"focus": 5}), TWIN("vfH_fold_diff"), TWIN("vfH_origin_wiring"), TWIN("vfH_origin_urls")],
    [H("vfH_fold_diff", ["fold-diff-end"], 3000, {"N": 4}), H("vfH_origin_urls", ["origin-url-accepted", "origin-url-refused"], 3000, {"sym": 3})],
    ["equalASCIIFold(s, t) against the byte-wise reference (equal length, bytes equal after mapping A-Z to a-z only) for every s of <= 3 (thorough 4) arbitrary bytes - covering U+212A (E2 84 AA), U+017F (C5 BF), overlong and invalid sequences - and every ASCII t of <= 3 (4) bytes, in both argument orders",
     "real url.Parse on arbitrary bytes: 2 (thorough 3) consecutive characters - or 1 character - of the Origin's host replaced by 2 (3) arbitrary bytes - at the start, inside, and right before the port / end - for 5 Hosts (name, name:port, IPv6 literal with port, IPv4, a name with the letters U+017F and U+212A fold to): every delimiter, percent sign, control byte, non-ASCII byte and look-alike the real parser can meet there; upgraded iff the RFC 3986 reference calls the origin's authority equal to Host under ASCII folding, otherwise 403 without hijack",
     "real url.Parse: see 'outside' for the template grammar; verdict compared with an RFC 3986 authority extractor written for the harness",
     "wiring: with CheckOrigin nil, Upgrade is executed with Origin hosts of 4 and 6 arbitrary bytes (all Unicode look-alikes of that length, e.g. U+212A, U+017F) against short ASCII Hosts, plus missing / extra port and suffix look-alike templates: upgraded iff the reference says equal, otherwise 403 without hijacking"],
    ["origins outside the template grammar of vfH_origin_urls (there the REAL net/url.Parse is executed from its SSA: 4 Hosts incl. an IPv6 literal and an IPv4 address x scheme x 5 userinfo shapes incl. 'example.com@' tricks x 9 host variants (case, removed / different / empty port, other host, added label before / after, suffix look-alike, [::1]) x 5 path/query/fragment tails); arbitrary-byte origins use the modelled parser", "hosts longer than the bound"],
    ["r.Host is ASCII (net/http delivers only hosts that pass httpguts.ValidHostHeader)", "url.Parse returns the host the template was built from"], HS_STUBS,
    LV + "Reduced scope: the comparison function for all short strings and the wiring of the default policy; URL parsing is outside.",
    "trusted: engine translation (real unicode/utf8 decoder executed from SSA), z3; url.Parse modelled")

add("C15", "compression agreement",
    [H("vfH_offer_variants", ["offer-variants-end"], 300), H("vfH_upgrade_logic", ["upgrade-success"], 600, {"focus": 9}), H("vfH_dial_logic", ["dial-success", "dial-refused"], 600, {"dim": 11}),
     H("vfH_negotiate", ["negotiate-end"], 400), H("vfH_compress_toggle", ["toggle-end"]), H("vfH_abandon_compressed", ["abandon-compressed-end"]), H("vfH_read_step_data", ["step-accepted"], 500), TWIN("vfH_negotiate")],
    [H("vfH_offer_variants", ["offer-variants-end"], 900, {"tier": 1, "mode": 0, "NB": 7}), H("vfH_offer_variants", ["offer-variants-end"], 1800, {"tier": 1, "mode": 1, "NL": 1, "QL": 2}), H("vfH_rt_e2e", ["rt-e2e-end"], 900, {"M": 2})],
    ["client and server negotiation code joined through their header maps for all four (Dialer.EnableCompression, Upgrader.EnableCompression) combinations and caller-supplied offers; server alone against offers from grammar templates (parameters, quoted strings, other extensions first, two lines, near-miss names, symbolic whitespace) and arbitrary byte strings of <= 3 (thorough <= 6) bytes, quoted parameter values of 1 (thorough 2) arbitrary bytes; client alone against replies with each / both / neither no_context_takeover parameter and extra extensions",
     "frame level: RSV1 on a first data frame accepted iff a decompressor is configured (inductive step); EnableWriteCompression / SetCompressionLevel (symbolic level, all 2^64 ints) toggled between 3 messages with the stored-block model"],
    ["real deflate output at any level", "offers longer than the templates"],
    ASSUME_COMMON, HS_STUBS + [STUB_FLATE],
    LV, "trusted: engine translation, z3, object-level net/http models, stored-block flate model")

add("C16", "handshake cleanup and deadlines (reduced)",
    [H("vfH_upgrade_logic", ["upgrade-post-hijack-failure", "upgrade-success"], 600, {"focus": 11}), H("vfH_dial_logic", ["dial-success", "dial-refused"], 600), H("vfH_connect_reply", ["connect-reply-end"]), H("vfH_socks_reply", ["socks-tunnel", "socks-refused"], 400), H("vfH_dial_logic", ["dial-success", "dial-refused"], 600, {"dim": 4, "dim2": 5, "proxy": 3}), TWIN("vfH_connect_reply")],
    [H("vfH_dial_logic", ["dial-success", "dial-refused"], 3400, {"tier": 1}), H("vfH_upgrade_logic", ["upgrade-success"], 3000, {"tier": 1}), H("vfH_socks_reply", ["socks-tunnel", "socks-refused"], 3000, {"tier": 1})],
    DIAL_BOUNDS + ["server: hijack failure; transport fault at each of the first 3 post-hijack operations with HandshakeTimeout on/off: before hijack the library never touches the connection, after hijack every failure closes it, success leaves it open with the write deadline cleared",
     "with HandshakeTimeout or a context deadline, the deadline in force at EVERY transport Read / Write between the start and the return of DialContext is non-zero and no later than the context's (scripted-transport paths; quick: every single dimension, plus socks5 proxy x timeout/deadline; thorough: every pair)",
     "CONNECT proxy dialer: arbitrary reply status; refusal closes the proxy connection", "SOCKS5 (vfH_socks_reply): proxyFromURL + the real x/net SOCKS5 client against a scripted proxy whose method-selection (2), RFC 1929 status (2) and reply head (4) bytes are arbitrary and whose bound address is IPv4 / IPv6 / FQDN of length 0, 3, 255 / an unknown type, for socks5 / socks5h URLs with default or explicit port, none / user / user:password credentials, FQDN / IPv4 / IPv6 targets, one (thorough: two) of: stream cut at 5 offsets with EOF / error / timeout, one-byte reads, write fault at each of the first 3 writes (3 kinds), context deadline: the client transcript is a prefix of the RFC 1928/1929 one for the URL's host and port, only the proxy is dialled, any refusal / malformed reply / fault aborts with the proxy connection closed, an accepting reply yields the tunnel (= the proxy connection), and the negotiation runs under the context deadline"],
    DIAL_OUT + ["what tls.Conn.Close really does to the inner connection (documented, assumed)", "real timers"],
    ["transports obey the io contracts"], DIAL_STUBS + HS_STUBS,
    LV + "Reduced scope: which Close / SetDeadline calls happen on which path, under object-level models of net/http and crypto/tls.",
    "trusted: engine translation, the call-trace models; lowest-confidence check together with C18")

add("C17", "bytes at the handshake boundary",
    [H("vfH_server_boundary", ["server-boundary-end"], 400), H("vfH_dial_logic", ["dial-success"], 600, {"dim": 14}), TWIN("vfH_server_boundary")],
    [H("vfH_server_boundary", ["server-boundary-end"], 3000, {"tier": 1})],
    ["server: two masked client messages (3- or 130-byte fragmented text with a ping between the fragments, 4-byte binary), the first k bytes already in the hijacked bufio.Reader and the rest in the socket, k over every structural boundary (+1), 0,1,2, 15-17, 124-127, T-1, T (thorough: every k), hijacked reader size {16, 256, 257, 4096}, ReadBufferSize {0, 64, 300}",
     "client: the 101 response and two server messages in the same transport chunk; the response head is consumed through the connection's own bufio.Reader by the http.ReadResponse model"],
    ["what net/http does with its buffer before Hijack", "the real http.ReadResponse's consumption (modelled as exactly the head)", "streams longer than ~150 bytes"],
    ASSUME_COMMON, HS_STUBS,
    LV, "trusted: engine translation (real bufio executed from SSA), object-level Hijack model")

add("C18", "proxy and TLS on every path (reduced)",
    [H("vfH_dial_logic", ["dial-success", "dial-refused"], 600), H("vfH_connect_reply", ["connect-reply-end"]), H("vfH_socks_reply", ["socks-tunnel", "socks-refused"], 400), TWIN("vfH_dial_logic"), TWIN("vfH_socks_reply")],
    [H("vfH_dial_logic", ["dial-success", "dial-refused"], 3400, {"tier": 1}), H("vfH_socks_reply", ["socks-tunnel", "socks-refused"], 3000, {"tier": 1})],
    DIAL_BOUNDS + ["SOCKS5 (vfH_socks_reply): proxyFromURL + the real x/net SOCKS5 client against a scripted proxy whose method-selection (2), RFC 1929 status (2) and reply head (4) bytes are arbitrary and whose bound address is IPv4 / IPv6 / FQDN of length 0, 3, 255 / an unknown type, for socks5 / socks5h URLs with default or explicit port, none / user / user:password credentials, FQDN / IPv4 / IPv6 targets, one (thorough: two) of: stream cut at 5 offsets with EOF / error / timeout, one-byte reads, write fault at each of the first 3 writes (3 kinds), context deadline: the client transcript is a prefix of the RFC 1928/1929 one for the URL's host and port, only the proxy is dialled, any refusal / malformed reply / fault aborts with the proxy connection closed, an accepting reply yields the tunnel (= the proxy connection), and the negotiation runs under the context deadline", "trace assertions: first hop dialled with the applicable custom function to the proxy's (else the backend's) host:port with 80/443 defaults; exactly one CONNECT for the backend host:port with Basic Proxy-Authorization iff the proxy URL has a password; non-200 aborts and closes; for wss the request reaches Request.Write only on a connection for which tls.Client, HandshakeContext and (unless InsecureSkipVerify) VerifyHostname(URL host or configured ServerName) succeeded, on the direct, http-proxy and https-proxy paths; with NetDialTLSContext and no proxy no library-side TLS happens"],
    DIAL_OUT + ["sequences of dials sharing one tls.Config beyond the two-dial program"],
    ["transports obey the io contracts"], DIAL_STUBS,
    LV + "Reduced scope: call traces under stubs.",
    "trusted: engine translation, call-trace models of crypto/tls and the dial hooks; lowest-confidence check together with C16")

NA = {}

json.dump(checks, open("checks.json", "w"), indent=1)
mm = {"notes": "All checks use one technique: bounded symbolic execution of the real code (go/ssa -> SMT bit-vectors, z3), counterexamples replayed natively. See DESIGN.md.",
      "source_commits": [], "checks": meta, "not_applicable": NA}
json.dump(mm, open("manifest_meta.json", "w"), indent=1)
print("checks:", sorted(checks))

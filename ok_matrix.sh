#!/bin/bash
# ok_matrix.sh [tier] [name-filter] [props|all]: false-alarm trial. Applies each behaviour-preserving
# change under /verif/preserving/ to a scratch worktree of /repo and runs the checks of the properties
# it touches (or all 20): every check must exit 0 without a VIOLATION line.
TIER=${1:-quick}; FILTER=${2:-.}; WHICH=${3:-touched}
SNAP=/tmp/vsnap_$$; RWT=/tmp/rsnap_$$
git -C /verif worktree add -q --detach $SNAP HEAD || exit 2
git -C /repo worktree add -q --detach $RWT HEAD || exit 2
trap 'git -C /verif worktree remove --force $SNAP; git -C /repo worktree remove --force $RWT' EXIT
(cd $SNAP && ./vcheck build) || exit 2
export VERIF_REPO=$RWT
ALL="C01 C02 C03 C04 C05 C06 C07 C08 C09 C10 C11 C12 C13 C14 C15 C16 C17 C18 C19 C20"
for d in /verif/preserving/*/; do
  n=$(basename $d); [[ $n =~ $FILTER ]] || continue
  git -C $RWT apply $d/patch.diff || { echo "$n: PATCH DOES NOT APPLY"; continue; }
  if [ "$WHICH" = all ]; then props=$ALL; else props=$(python3 -c "import json;print(' '.join(sorted(set(json.load(open('$d/meta.json'))['properties_touched']))))"); fi
  for prop in $props; do
    t0=$(date +%s)
    out=$(cd $SNAP && timeout 3000 ./vcheck $prop $TIER 2>&1); rc=$?
    t1=$(date +%s)
    v=$(echo "$out" | grep -A2 "^VIOLATION" | head -3 | tr '\n' ' ' | cut -c1-300)
    inc=$(echo "$out" | grep "^INCONCLUSIVE" | head -2 | tr '\n' ' ' | cut -c1-300)
    unc=$(echo "$out" | grep "^UNCONFIRMED" | head -1 | cut -c1-200)
    echo "$n $prop: tier=$TIER exit=$rc time=$((t1-t0))s $v $inc $unc"
  done
  git -C $RWT checkout -- .
done

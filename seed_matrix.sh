#!/bin/bash
# seed_matrix.sh [tier] [name-filter]: runs each seeded change against the check of the property it breaks.
# Works on a snapshot of the committed /verif and on a scratch worktree of /repo (VERIF_REPO), so that
# neither /verif edits nor other runs on /repo interfere; both are removed afterwards.
# (Equivalent by hand: git -C /repo apply <patch>; ./vcheck <prop> quick; git -C /repo checkout -- .)
TIER=${1:-quick}; FILTER=${2:-.}
SNAP=/tmp/vsnap_$$; RWT=/tmp/rsnap_$$
git -C /verif worktree add -q --detach $SNAP HEAD || exit 2
git -C /repo worktree add -q --detach $RWT HEAD || exit 2
trap 'git -C /verif worktree remove --force $SNAP; git -C /repo worktree remove --force $RWT' EXIT
(cd $SNAP && ./vcheck build) || exit 2
export VERIF_REPO=$RWT
for d in /verif/seeded/*/; do
  n=$(basename $d); [[ $n =~ $FILTER ]] || continue
  prop=${n%%_*}
  grep -q "\"$prop\"" $SNAP/checks.json || { echo "$n: no check registered for $prop"; continue; }
  git -C $RWT apply $d/patch.diff || { echo "$n: PATCH DOES NOT APPLY"; continue; }
  t0=$(date +%s)
  out=$(cd $SNAP && timeout 3000 ./vcheck $prop $TIER 2>&1); rc=$?
  git -C $RWT checkout -- .
  t1=$(date +%s)
  v=$(echo "$out" | grep -A1 "^VIOLATION" | head -2 | tr '\n' ' ' | cut -c1-230)
  inc=$(echo "$out" | grep -c "^INCONCLUSIVE")
  unc=$(echo "$out" | grep "^UNCONFIRMED" | head -1 | cut -c1-200)
  echo "$n: tier=$TIER exit=$rc time=$((t1-t0))s inconclusive=$inc $v $unc"
done

#!/bin/bash
# seed_matrix.sh [tier] [name-filter]: runs each seeded change against the check of the property it breaks.
# Results: seeded/RESULTS.txt (one line per seeded change). /repo is restored after each run.
TIER=${1:-quick}; FILTER=${2:-.}
cd /verif
for d in seeded/*/; do
  n=$(basename $d); [[ $n =~ $FILTER ]] || continue
  prop=${n%%_*}
  grep -q "\"$prop\"" checks.json || { echo "$n: no check registered for $prop"; continue; }
  git -C /repo apply /verif/$d/patch.diff || { echo "$n: PATCH DOES NOT APPLY"; continue; }
  t0=$(date +%s)
  out=$(timeout 3000 ./vcheck $prop $TIER 2>&1); rc=$?
  git -C /repo checkout -- .
  t1=$(date +%s)
  v=$(echo "$out" | grep -A1 "^VIOLATION" | head -2 | tr '\n' ' ' | cut -c1-230)
  inc=$(echo "$out" | grep -c "^INCONCLUSIVE")
  echo "$n: tier=$TIER exit=$rc time=$((t1-t0))s inconclusive=$inc $v"
done

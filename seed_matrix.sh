#!/bin/bash
# seed_matrix.sh [tier] [name-filter]: runs each seeded change against the check of the property it breaks,
# from a snapshot of the committed /verif (so that editing /verif meanwhile does not disturb it).
# /repo is restored after each run.
TIER=${1:-quick}; FILTER=${2:-.}
SNAP=/tmp/vsnap_$$
git -C /verif worktree add -q --detach $SNAP HEAD || exit 2
trap 'git -C /repo checkout -- . ; git -C /verif worktree remove --force $SNAP' EXIT
(cd $SNAP && ./vcheck build) || exit 2
for d in /verif/seeded/*/; do
  n=$(basename $d); [[ $n =~ $FILTER ]] || continue
  prop=${n%%_*}
  grep -q "\"$prop\"" $SNAP/checks.json || { echo "$n: no check registered for $prop"; continue; }
  git -C /repo apply $d/patch.diff || { echo "$n: PATCH DOES NOT APPLY"; continue; }
  t0=$(date +%s)
  out=$(cd $SNAP && timeout 3000 ./vcheck $prop $TIER 2>&1); rc=$?
  git -C /repo checkout -- .
  t1=$(date +%s)
  v=$(echo "$out" | grep -A1 "^VIOLATION" | head -2 | tr '\n' ' ' | cut -c1-230)
  inc=$(echo "$out" | grep -c "^INCONCLUSIVE")
  unc=$(echo "$out" | grep "^UNCONFIRMED" | head -1 | cut -c1-200)
  echo "$n: tier=$TIER exit=$rc time=$((t1-t0))s inconclusive=$inc $v $unc"
done

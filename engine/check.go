package main

// gosmt check <property> <tier>: runs the harnesses registered for a property
// in /verif/checks.json, replays every counterexample natively, applies the
// known-findings file, writes /verif/evidence/<id>.json and prints the verdict.

import (
	"bytes"
	"context"
	"crypto/sha1"
	"encoding/json"
	"fmt"
	"os"
	"os/exec"
	"path/filepath"
	"sort"
	"strconv"
	"strings"
	"time"

	"golang.org/x/tools/go/ssa"
)

type CheckEntry struct {
	Harness   string         `json:"harness"`
	Params    map[string]int `json:"params,omitempty"`
	Witnesses []string       `json:"witnesses,omitempty"`
	TimeoutS  int            `json:"timeout_s,omitempty"`
	MaxPaths  int            `json:"max_paths,omitempty"`
	Note      string         `json:"note,omitempty"`
	// ExpectViolation marks vacuity twins: the harness must report a violation.
	ExpectViolation bool `json:"expect_violation,omitempty"`
}

type CheckSpec struct {
	Title       string       `json:"title"`
	Quick       []CheckEntry `json:"quick"`
	Thorough    []CheckEntry `json:"thorough"`
	Bounds      []string     `json:"bounds"`
	Outside     []string     `json:"outside"`
	Assumptions []string     `json:"assumptions"`
	Stubs       []string     `json:"stubs"`
	Dontcare    []string     `json:"dontcare,omitempty"`
}

type KnownFinding struct {
	Property string `json:"property"`
	Status   string `json:"status"` // "known" or "fixed"
	Harness  string `json:"harness,omitempty"`
	AssertID string `json:"assert_id,omitempty"`
	Kind     string `json:"kind,omitempty"`
	Contains string `json:"detail_contains,omitempty"`
	What     string `json:"what"`
	Commit   string `json:"commit,omitempty"`
	Line     string `json:"line,omitempty"`
}

func verifRoot() string {
	if r := os.Getenv("VERIF_ROOT"); r != "" {
		return r
	}
	return "/verif"
}

func loadChecks() (map[string]*CheckSpec, error) {
	b, err := os.ReadFile(filepath.Join(verifRoot(), "checks.json"))
	if err != nil {
		return nil, err
	}
	m := map[string]*CheckSpec{}
	if err := json.Unmarshal(b, &m); err != nil {
		return nil, err
	}
	return m, nil
}

func loadKnown() []KnownFinding {
	b, err := os.ReadFile(filepath.Join(verifRoot(), "known_findings.json"))
	if err != nil {
		return nil
	}
	var l []KnownFinding
	json.Unmarshal(b, &l)
	return l
}

func harnessNames(e *Engine) []string {
	var out []string
	for name, mem := range e.mainPkg.Members {
		if _, ok := mem.(*ssa.Function); ok && strings.HasPrefix(name, "vfH_") {
			out = append(out, name)
		}
	}
	sort.Strings(out)
	return out
}

// replay runs the witness natively; returns "reproduced", "not-reproduced" or
// "replay-error", plus the relevant output.
func replayWitness(repo, hdir string, names []string, wpath string, v *ViolationOut) (string, string) {
	tmp := filepath.Join(verifRoot(), "replays", "tmp")
	os.MkdirAll(tmp, 0o755)
	var sb strings.Builder
	sb.WriteString("//go:build verif\n\npackage websocket\n\nimport (\n\t\"fmt\"\n\t\"os\"\n\t\"testing\"\n\t\"time\"\n)\n\n")
	sb.WriteString("var vfRegistry = map[string]func(){\n")
	for _, n := range names {
		fmt.Fprintf(&sb, "\t%q: %s,\n", n, n)
	}
	sb.WriteString("}\n\n")
	sb.WriteString(`func TestVfReplay(t *testing.T) {
	path := os.Getenv("VF_WITNESS")
	if err := vfLoadWitness(path); err != nil {
		t.Fatalf("VF-REPLAY-RESULT: error loading witness: %v", err)
	}
	h := vfRegistry[vfW.Harness]
	if h == nil {
		t.Fatalf("VF-REPLAY-RESULT: error unknown harness %s", vfW.Harness)
	}
	done := make(chan string, 1)
	go func() {
		defer func() {
			r := recover()
			switch r := r.(type) {
			case nil:
				if ex := vfAllocExceeded(); ex != "" {
					done <- ex
				} else {
					done <- "completed"
				}
			case vfAssumeFailed:
				done <- "assume-failed"
			case vfExhausted:
				done <- "witness-exhausted"
			case string:
				if len(r) > 16 && r[:16] == "VF-ASSERT-FAILED" {
					done <- "assert " + r[17:]
				} else {
					done <- "panic " + r
				}
			case error:
				done <- "panic " + r.Error()
			default:
				done <- fmt.Sprintf("panic %v", r)
			}
		}()
		h()
	}()
	select {
	case r := <-done:
		fmt.Printf("VF-REPLAY-RESULT: %s DIGEST[%s]\n", r, vfDigestString())
	case <-time.After(20 * time.Second):
		fmt.Printf("VF-REPLAY-RESULT: hang\n")
	}
}
`)
	testFile := filepath.Join(tmp, fmt.Sprintf("replay_%d_test.go", os.Getpid()))
	os.WriteFile(testFile, []byte(sb.String()), 0o644)
	defer os.Remove(testFile)
	ov := map[string]map[string]string{"Replace": {}}
	files, _ := filepath.Glob(filepath.Join(hdir, "*.go"))
	for _, f := range files {
		ov["Replace"][filepath.Join(repo, "zz_verif_"+filepath.Base(f))] = f
	}
	ov["Replace"][filepath.Join(repo, "zz_verif_replay_test.go")] = testFile
	ovb, _ := json.Marshal(ov)
	ovFile := filepath.Join(tmp, fmt.Sprintf("overlay_%d.json", os.Getpid()))
	os.WriteFile(ovFile, ovb, 0o644)
	defer os.Remove(ovFile)
	ctx, cancel := context.WithTimeout(context.Background(), 180*time.Second)
	defer cancel()
	args := []string{"test", "-tags", "verif", "-vet=off", "-count=1", "-v", "-overlay", ovFile, "-run", "^TestVfReplay$"}
	env := append(os.Environ(), "VF_WITNESS="+wpath, "GOFLAGS=-mod=mod", "GOPROXY=off", "GOSUMDB=off", "GOTOOLCHAIN=local")
	if v.Kind == "race" {
		// data races are confirmed by Go's own race detector on the replayed schedule
		args = append(args, "-race")
		env = append(env, "CGO_ENABLED=1", "VF_FREERUN=1")
	}
	args = append(args, ".")
	cmd := exec.CommandContext(ctx, "go", args...)
	cmd.Dir = repo
	cmd.Env = env
	var out bytes.Buffer
	cmd.Stdout = &out
	cmd.Stderr = &out
	cmd.Run()
	txt := out.String()
	res := ""
	digest := ""
	for _, line := range strings.Split(txt, "\n") {
		if i := strings.Index(line, "VF-REPLAY-RESULT: "); i >= 0 {
			res = strings.TrimSpace(line[i+len("VF-REPLAY-RESULT: "):])
			if j := strings.Index(res, " DIGEST["); j >= 0 {
				digest = res[j+1:]
				res = res[:j]
			}
		}
	}
	if v.Kind == "selftest" {
		return "selftest", digest
	}
	if res == "" {
		// a panic outside the harness goroutine, a fatal error or a build failure
		if strings.Contains(txt, "panic:") || strings.Contains(txt, "fatal error:") {
			res = "panic (process)"
		} else {
			return "replay-error", tail(txt, 1500)
		}
	}
	if v.Kind == "race" {
		if strings.Contains(txt, "WARNING: DATA RACE") {
			return "reproduced", "go test -race reports a data race on the replayed schedule"
		}
		return "not-reproduced", res
	}
	switch v.Kind {
	case "assert":
		if res == "assert "+v.ID {
			return "reproduced", res
		}
		// the real code panics on the witness (the engine's stub hid the panic behind a
		// failed assertion): a run-time panic of the library is a violation in its own right
		if strings.HasPrefix(res, "panic runtime error") || res == "panic (process)" {
			return "reproduced", "native run panics instead: " + res
		}
	case "panic":
		if strings.HasPrefix(res, "panic") {
			return "reproduced", res
		}
	case "alloc":
		if strings.HasPrefix(res, "panic") || strings.HasPrefix(res, "alloc-exceeded") {
			return "reproduced", res
		}
	case "deadlock", "unwind":
		if res == "hang" {
			return "reproduced", res
		}
		// the native scheduler's watchdog fired: confirmed if a goroutine is parked at a
		// library position the engine named as blocked
		if i := strings.Index(res, "; blocked: "); i >= 0 && v.Kind == "deadlock" {
			for _, site := range blockedSitesOf(v.Detail) {
				if strings.Contains(res[i:], "@"+site+" ") {
					return "reproduced", "native run deadlocks: goroutine parked at " + site
				}
				// a send parked for good in the same library file (the schedule may let
				// another of the symmetric senders lose the race natively)
				file := site[:strings.Index(site, ":")]
				if strings.Contains(v.Detail, "chan send") || strings.Contains(v.Detail, "send on full channel") {
					if strings.Contains(res[i:], "[chan send]@"+file+":") {
						return "reproduced", "native run deadlocks: goroutine parked in a channel send in " + file + " (" + strings.TrimSpace(res[i+11:]) + ")"
					}
				}
			}
		}
	}
	return "not-reproduced", res
}

// blockedSitesOf extracts the "file.go:line" positions from an engine deadlock description.
func blockedSitesOf(detail string) []string {
	var out []string
	for _, f := range strings.FieldsFunc(detail, func(r rune) bool { return r == ' ' || r == '(' || r == ')' || r == '@' }) {
		if i := strings.Index(f, ".go:"); i > 0 {
			ok := true
			for _, c := range f[i+4:] {
				if c < '0' || c > '9' {
					ok = false
				}
			}
			if ok && len(f) > i+4 {
				out = append(out, f)
			}
		}
	}
	return out
}

func tail(s string, n int) string {
	if len(s) > n {
		return s[len(s)-n:]
	}
	return s
}

func matchKnown(k KnownFinding, prop string, v *ViolationOut) bool {
	if k.Property != prop {
		return false
	}
	if k.Harness != "" && k.Harness != v.Harness {
		return false
	}
	if k.AssertID != "" && k.AssertID != v.ID {
		return false
	}
	if k.Kind != "" && k.Kind != v.Kind {
		return false
	}
	if k.Contains != "" && !strings.Contains(v.Detail, k.Contains) {
		return false
	}
	return true
}

func cmdCheck(args []string) int {
	if len(args) < 2 {
		fmt.Fprintln(os.Stderr, "usage: gosmt check <property> <quick|thorough>")
		return 2
	}
	prop, tier := args[0], args[1]
	repo := "/repo"
	if r := os.Getenv("VERIF_REPO"); r != "" {
		repo = r
	}
	hdir := filepath.Join(verifRoot(), "harness")
	seed, _ := strconv.Atoi(os.Getenv("VERIF_SEED"))
	workers := 16
	if w, err := strconv.Atoi(os.Getenv("VERIF_WORKERS")); err == nil && w > 0 {
		workers = w
	}
	t0 := time.Now()
	checks, err := loadChecks()
	if err != nil {
		fmt.Fprintln(os.Stderr, "checks.json:", err)
		return 2
	}
	spec := checks[prop]
	if spec == nil {
		fmt.Fprintln(os.Stderr, "no check registered for", prop)
		return 2
	}
	entries := spec.Quick
	if tier == "thorough" {
		entries = append(append([]CheckEntry(nil), spec.Quick...), spec.Thorough...)
		for i := range entries {
			if i < len(spec.Quick) {
				// quick entries run with the thorough tier parameter too
				p := map[string]int{}
				for k, v := range entries[i].Params {
					p[k] = v
				}
				entries[i].Params = p
			}
		}
	}
	ov, err := harnessOverlay(repo, hdir)
	if err != nil {
		fmt.Fprintln(os.Stderr, err)
		return 2
	}
	e, err := loadEngine(repo, ov, "verif")
	if err != nil {
		// the tree does not build with the harnesses: report as inconclusive
		fmt.Println("INCONCLUSIVE: cannot load /repo with harness overlay:", err)
		writeEvidence(prop, tier, seed, spec, nil, nil, nil, time.Since(t0).Seconds(), []string{"load error: " + err.Error()})
		return 2
	}
	e.nworkers = workers
	e.seed = int64(seed)
	e.stopAfterViol = 3
	names := harnessNames(e)
	known := loadKnown()

	var results []*HarnessResult
	var confirmed []ViolationOut
	var knownHits []string
	var unconfirmed []ViolationOut
	var problems []string
	for _, ent := range entries {
		e.params = map[string]int{}
		for k, v := range ent.Params {
			e.params[k] = v
		}
		to := ent.TimeoutS
		if to == 0 {
			to = 300
		}
		e.deadline = time.Now().Add(time.Duration(to) * time.Second)
		e.maxPaths = 1 << 30
		if ent.MaxPaths > 0 {
			e.maxPaths = ent.MaxPaths
		}
		r := e.runHarness(ent.Harness)
		results = append(results, r)
		fmt.Printf("[%s] %s %v: paths=%d %v complete=%v asserts=%d wall=%.1fs solver=%.1fs q=%d\n", prop, r.Harness, ent.Params, r.TotalPaths, r.Paths, r.Complete, len(r.Asserts), r.WallS, r.SolverS, r.Solver.Queries)
		if len(r.EngineBugs) > 0 {
			problems = append(problems, fmt.Sprintf("%s: engine error: %s", r.Harness, firstLine(r.EngineBugs[0])))
		}
		if !r.Complete {
			problems = append(problems, fmt.Sprintf("%s: exploration incomplete (budget) after %d paths", r.Harness, r.TotalPaths))
		}
		for _, s := range r.Inconclusive {
			problems = append(problems, fmt.Sprintf("%s: %s", r.Harness, s))
		}
		if ent.ExpectViolation {
			if r.NViolations == 0 {
				problems = append(problems, fmt.Sprintf("%s: vacuity twin did not report a violation", r.Harness))
			}
			continue
		}
		for _, w := range ent.Witnesses {
			if r.Witnesses[w] == 0 && r.NViolations == 0 {
				problems = append(problems, fmt.Sprintf("%s: reachability witness %q not reached (vacuous?)", r.Harness, w))
			}
		}
		confirmedKey := map[string]bool{}
		for i := range r.Violations {
			v := &r.Violations[i]
			if confirmedKey[v.Kind+"|"+v.ID] {
				continue // this assertion already has a natively confirmed witness
			}
			wb, _ := json.MarshalIndent(v, "", " ")
			h := sha1.Sum(wb)
			dir := filepath.Join(verifRoot(), "replays", prop)
			os.MkdirAll(dir, 0o755)
			wpath := filepath.Join(dir, fmt.Sprintf("%s_%x.json", v.Harness, h[:6]))
			os.WriteFile(wpath, wb, 0o644)
			status, out := replayWitness(repo, hdir, names, wpath, v)
			v.Replayed = status + ": " + out
			if status != "reproduced" {
				unconfirmed = append(unconfirmed, *v)
				fmt.Printf("UNCONFIRMED property=%s harness=%s %s %s: native replay says %q (%s)\n", prop, v.Harness, v.Kind, v.ID, out, status)
				if os.Getenv("VF_KEEP") == "" {
					os.Remove(wpath)
				}
				continue
			}
			confirmedKey[v.Kind+"|"+v.ID] = true
			isKnown := false
			for _, k := range known {
				if k.Status == "known" && matchKnown(k, prop, v) {
					isKnown = true
					line := fmt.Sprintf("KNOWN-FINDING: property=%s %s", prop, k.What)
					if !containsStr(knownHits, line) {
						knownHits = append(knownHits, line)
					}
				}
			}
			if isKnown {
				continue
			}
			v.Extra = map[string]string{"replay": wpath}
			confirmedKey[v.Kind+"|"+v.ID] = true
			confirmed = append(confirmed, *v)
		}
	}
	for _, l := range knownHits {
		fmt.Println(l)
	}
	for _, p := range problems {
		fmt.Println("INCONCLUSIVE:", p)
	}
	wall := time.Since(t0).Seconds()
	writeEvidence(prop, tier, seed, spec, results, confirmed, unconfirmed, wall, problems)
	if len(confirmed) > 0 {
		seen := map[string]bool{}
		for _, v := range confirmed {
			key := v.Kind + v.ID
			if seen[key] {
				continue
			}
			seen[key] = true
			fmt.Printf("VIOLATION property=%s replay=%s\n", prop, v.Extra["replay"])
			fmt.Printf("  harness=%s %s %s: %s\n  native replay: %s\n", v.Harness, v.Kind, v.ID, v.Detail, v.Replayed)
		}
		return 1
	}
	if len(problems) > 0 {
		fmt.Printf("RESULT property=%s tier=%s: no violation; %d inconclusive item(s), see evidence\n", prop, tier, len(problems))
		return 0
	}
	fmt.Printf("RESULT property=%s tier=%s: holds within the stated bounds (%.1fs)\n", prop, tier, wall)
	return 0
}

func firstLine(s string) string {
	if i := strings.Index(s, "\n"); i >= 0 {
		return s[:i]
	}
	return s
}

func writeEvidence(prop, tier string, seed int, spec *CheckSpec, results []*HarnessResult, confirmed, unconfirmed []ViolationOut, wall float64, problems []string) {
	type fnEnc struct {
		Name    string `json:"name"`
		Instrs  int    `json:"ssa_instructions"`
		Entered int    `json:"times_entered"`
	}
	cov := map[string]interface{}{}
	totalPaths, nontriv, oblig, dischargedSolver, dischargedRewrite, unknown := 0, 0, 0, 0, 0, 0
	solverPaths, normalised := 0, 0
	var solverS float64
	queries := map[string]int{"total": 0, "sat": 0, "unsat": 0, "unknown": 0}
	fns := map[string]*fnEnc{}
	var samples []interface{}
	var runs []interface{}
	witnesses := map[string]int{}
	for _, r := range results {
		totalPaths += r.TotalPaths
		nontriv += r.SymbolicPaths
		solverPaths += r.NontrivPaths
		solverS += r.SolverS
		queries["total"] += r.Solver.Queries
		queries["sat"] += r.Solver.Sat
		queries["unsat"] += r.Solver.Unsat
		queries["unknown"] += r.Solver.Unknown
		for id, a := range r.Asserts {
			_ = id
			oblig += a.Discharged + a.Trivial + a.Normalised + a.Violated + a.Unknown
			dischargedSolver += a.Discharged
			dischargedRewrite += a.Trivial + a.Normalised
			normalised += a.Normalised
			unknown += a.Unknown
		}
		for n, c := range r.Functions {
			f := fns[n]
			if f == nil {
				f = &fnEnc{Name: n, Instrs: r.FuncInstrs[n]}
				fns[n] = f
			}
			f.Entered += c
		}
		for _, s := range r.Samples {
			if len(samples) < 12 {
				samples = append(samples, map[string]string{"harness": r.Harness, "case": s})
			}
		}
		for w, c := range r.Witnesses {
			witnesses[r.Harness+":"+w] += c
		}
		runs = append(runs, map[string]interface{}{
			"harness": r.Harness, "params": r.Params, "paths": r.TotalPaths, "path_status": r.Paths,
			"complete": r.Complete, "asserts": r.Asserts, "solver_queries": r.Solver.Queries,
			"solver_s": r.SolverS, "wall_s": r.WallS, "steps": r.Steps, "max_nondets_on_a_path": r.Nondets,
			"max_query_ms": r.Solver.MaxQuery.Milliseconds(),
		})
	}
	if len(samples) == 0 {
		samples = append(samples, "no completed path with a solver-discharged obligation in this run")
	}
	var fl []*fnEnc
	for _, f := range fns {
		// only library and standard-library code, not the harness itself
		if strings.Contains(f.Name, "vf") && strings.Contains(f.Name, "gorilla/websocket") && (strings.Contains(f.Name, ".vf") || strings.Contains(f.Name, "*vf")) {
			continue
		}
		fl = append(fl, f)
	}
	sort.Slice(fl, func(i, j int) bool { return fl[i].Name < fl[j].Name })
	cov["explanation"] = fmt.Sprintf("Bounded symbolic execution of the real code (go/ssa of /repo's working tree, rebuilt on this run) into SMT bit-vector terms; %d paths explored over %d harness run(s); every path's assertions were decided for ALL values of the symbolic inputs on that path: %d obligations closed by z3 (unsat of pc ∧ ¬assertion), %d closed by the engine's sound term normaliser (assertion folded to true), %d unknown. Case splits (Choose) enumerate shapes exhaustively within the stated bounds; nothing outside the bounds is claimed.", totalPaths, len(results), dischargedSolver, dischargedRewrite, unknown)
	cov["evaluations"] = totalPaths
	cov["distinct_nontrivial"] = nontriv
	cov["rule"] = "one evaluation = one explored path (a distinct sequence of case-split / branch decisions, so paths are distinct by construction); a path is non-trivial when at least one of its assertions ranged over symbolic operands and was decided for all their values - either discharged by the SMT solver (pc AND NOT assertion unsat) or folded to true by the engine's sound term normaliser (e.g. payload equality after xor cancellation); paths whose assertions involved only concrete values are trivial"
	cov["paths_with_solver_discharged_assertions"] = solverPaths
	cov["assertions_normalised_over_symbolic_operands"] = normalised
	cov["samples"] = samples
	cov["obligations"] = oblig
	cov["discharged"] = dischargedSolver + dischargedRewrite
	cov["discharged_by_solver"] = dischargedSolver
	cov["discharged_by_normaliser"] = dischargedRewrite
	cov["functions_encoded"] = fl
	cov["bounds"] = spec.Bounds
	cov["outside_the_claim"] = spec.Outside
	cov["queries"] = queries
	cov["solver_s"] = solverS
	cov["solver"] = "z3 (persistent process per worker, incremental push/pop)"
	cov["runs"] = runs
	cov["reach_witnesses"] = witnesses
	cov["stubs"] = spec.Stubs
	cov["dontcare_regions"] = spec.Dontcare
	cov["inconclusive"] = problems
	var unc []interface{}
	for _, u := range unconfirmed {
		unc = append(unc, map[string]string{"harness": u.Harness, "kind": u.Kind, "id": u.ID, "detail": u.Detail, "replay": u.Replayed})
	}
	cov["unconfirmed"] = unc
	var conf []interface{}
	for _, u := range confirmed {
		conf = append(conf, map[string]string{"harness": u.Harness, "kind": u.Kind, "id": u.ID, "detail": u.Detail, "replay": u.Replayed, "witness": u.Extra["replay"]})
	}
	cov["confirmed_violations"] = conf
	cov["exhaustive"] = false
	ev := map[string]interface{}{
		"property_id": prop,
		"tier":        tier,
		"seed":        seed,
		"level":       "other",
		"coverage":    cov,
		"assumptions": spec.Assumptions,
		"wall_s":      wall,
		"violations":  len(confirmed),
	}
	b, _ := json.MarshalIndent(ev, "", " ")
	dir := filepath.Join(verifRoot(), "evidence")
	os.MkdirAll(dir, 0o755)
	os.WriteFile(filepath.Join(dir, prop+".json"), b, 0o644)
}

func cmdReplay(args []string) int {
	if len(args) < 1 {
		fmt.Fprintln(os.Stderr, "usage: gosmt replay <witness.json>")
		return 2
	}
	repo := "/repo"
	if r := os.Getenv("VERIF_REPO"); r != "" {
		repo = r
	}
	hdir := filepath.Join(verifRoot(), "harness")
	b, err := os.ReadFile(args[0])
	if err != nil {
		fmt.Fprintln(os.Stderr, err)
		return 2
	}
	var v ViolationOut
	if err := json.Unmarshal(b, &v); err != nil {
		fmt.Fprintln(os.Stderr, err)
		return 2
	}
	// harness names: scan the harness directory
	var names []string
	files, _ := filepath.Glob(filepath.Join(hdir, "*.go"))
	for _, f := range files {
		src, _ := os.ReadFile(f)
		for _, line := range strings.Split(string(src), "\n") {
			if strings.HasPrefix(line, "func vfH_") {
				n := line[len("func "):]
				if i := strings.Index(n, "("); i > 0 {
					names = append(names, n[:i])
				}
			}
		}
	}
	status, out := replayWitness(repo, hdir, names, args[0], &v)
	fmt.Printf("replay %s: %s (%s)\n", args[0], status, out)
	if status == "reproduced" {
		return 1
	}
	return 0
}

package main

import (
	"fmt"
	"go/types"
	mrand "math/rand"
	"os"
	"sort"
	"strings"
	"sync"
	"time"

	"golang.org/x/tools/go/packages"
	"golang.org/x/tools/go/ssa"
	"golang.org/x/tools/go/ssa/ssautil"
)

type Engine struct {
	prog    *ssa.Program
	mainPkg *ssa.Package
	pkgs    []*packages.Package

	intrinsics map[string]intrinsic
	redirects  map[string]*ssa.Function
	allowedPkg map[string]bool
	allowedFn  map[string]bool
	params     map[string]int

	maxSteps      int
	maxUnwind     int
	maxValues     int
	maxAlloc      int
	maxPaths      int
	deadline      time.Time
	traceCalls    bool
	traceInstr    bool
	siteStats     map[string]int
	stopAfterViol int
	concrete      *mrand.Rand
	concMu        sync.Mutex
	selfDigest    []string
	selfNondets   []WitnessVal
	selfStatus    string
	siteMu        sync.Mutex
	solverKind    string
	solverTO      int
	nworkers      int
	seed          int64

	methodCache sync.Map

	mu      sync.Mutex
	cond    *sync.Cond
	queue   [][]decision
	active  int
	stopped bool
	res     *HarnessResult
}

var opaquePkgs = map[string]bool{"compress/flate": true, "crypto/tls": true, "net/http": true, "encoding/json": true}
var opaqueTypes = map[string]bool{"compress/flate.Writer": true, "crypto/tls.Conn": true, "encoding/json.Encoder": true, "encoding/json.Decoder": true}

var defaultAllowedPkgs = []string{
	"bufio", "io", "bytes", "strings", "strconv", "errors", "unicode/utf8",
	"encoding/binary", "encoding/base64", "internal/byteorder", "math/bits",
	"sort", "slices", "internal/stringslite", "internal/bytealg", "cmp",
}

var defaultAllowedFns = []string{
	"(*net.Buffers).WriteTo", "(*net.Buffers).consume",
	"(net/http.Header).Get", "(net/http.Header).Set", "(net/http.Header).Add", "(net/http.Header).Del", "(net/http.Header).Values",
	"(net/textproto.MIMEHeader).Get", "(net/textproto.MIMEHeader).Set", "(net/textproto.MIMEHeader).Add", "(net/textproto.MIMEHeader).Del", "(net/textproto.MIMEHeader).Values",
	"(*io.LimitedReader).Read",
	"(*net/url.URL).Port", "(*net/url.URL).Hostname", "net/url.splitHostPort", "net/url.validOptionalPort",
	"(net.IP).To4", "(net.IP).To16", "net.isZeros",
}

// model redirects: real callee -> harness function (if the harness defines it)
var defaultRedirects = map[string]string{
	"compress/flate.NewWriter":                   "vfFlateNewWriter",
	"(*compress/flate.Writer).Write":             "vfFlateWrite",
	"(*compress/flate.Writer).Flush":             "vfFlateFlush",
	"(*compress/flate.Writer).Reset":             "vfFlateWReset",
	"(*compress/flate.Writer).Close":             "vfFlateWClose",
	"compress/flate.NewReader":                   "vfFlateNewReader",
	"crypto/sha1.New":                            "vfSha1New",
	"(*encoding/json.Encoder).Encode":            "vfJSONEncode",
	"encoding/json.NewEncoder":                   "vfJSONNewEncoder",
	"(*encoding/json.Decoder).Decode":            "vfJSONDecode",
	"encoding/json.NewDecoder":                   "vfJSONNewDecoder",
	"net/http.NewResponseController":             "vfNewResponseController",
	"(*net/http.ResponseController).Hijack":      "vfHijack",
	"net/http.Error":                             "vfHTTPError",
	"net/http.ReadResponse":                      "vfReadResponse",
	"(*net/http.Request).Write":                  "vfRequestWrite",
	"(*net/http.Request).WithContext":            "vfRequestWithContext",
	"(*net/http.Request).AddCookie":              "vfRequestAddCookie",
	"(*net/http.Response).Cookies":               "vfResponseCookies",
	"net/url.Parse":                              "vfURLParse",
	"(*net/url.Userinfo).Username":               "vfUserinfoUsername",
	"(*net/url.Userinfo).Password":               "vfUserinfoPassword",
	"context.WithTimeout":                        "vfContextWithTimeout",
	"context.Background":                         "vfContextBackground",
	"net/http/httptrace.ContextClientTrace":      "vfContextClientTrace",
	"crypto/tls.Client":                          "vfTLSClient",
	"(*crypto/tls.Conn).HandshakeContext":        "vfTLSHandshakeContext",
	"(*crypto/tls.Conn).VerifyHostname":          "vfTLSVerifyHostname",
	"(*crypto/tls.Conn).ConnectionState":         "vfTLSConnectionState",
	"(*crypto/tls.Conn).Close":                   "vfTLSClose",
	"(*crypto/tls.Conn).Read":                    "vfTLSRead",
	"(*crypto/tls.Conn).Write":                   "vfTLSWrite",
	"(*crypto/tls.Conn).SetDeadline":             "vfTLSSetDeadline",
	"(*crypto/tls.Conn).SetReadDeadline":         "vfTLSSetReadDeadline",
	"(*crypto/tls.Conn).SetWriteDeadline":        "vfTLSSetWriteDeadline",
	"(*crypto/tls.Config).Clone":                 "vfTLSConfigClone",
	"io.NopCloser":                               "vfNopCloser",
	"bytes.NewReader":                            "",
	"(*net.Dialer).DialContext":                  "vfNetDialerDialContext",
	"encoding/base64.(*Encoding).EncodeToString": "",
}

func loadEngine(repo string, overlay map[string][]byte, tags string) (*Engine, error) {
	cfg := &packages.Config{
		Mode:    packages.LoadAllSyntax,
		Dir:     repo,
		Overlay: overlay,
		Env: append(os.Environ(), "GOFLAGS=-mod=mod", "GOPROXY=off", "GOSUMDB=off",
			"GOTOOLCHAIN=local", "CGO_ENABLED=0"),
	}
	if tags != "" {
		cfg.BuildFlags = []string{"-tags=" + tags}
	}
	pkgs, err := packages.Load(cfg, ".")
	if err != nil {
		return nil, err
	}
	if packages.PrintErrors(pkgs) > 0 {
		return nil, fmt.Errorf("package load errors")
	}
	prog, spkgs := ssautil.AllPackages(pkgs, ssa.InstantiateGenerics)
	prog.Build()
	e := &Engine{
		prog: prog, mainPkg: spkgs[0], pkgs: pkgs,
		intrinsics: make(map[string]intrinsic),
		redirects:  make(map[string]*ssa.Function),
		allowedPkg: make(map[string]bool),
		allowedFn:  make(map[string]bool),
		params:     make(map[string]int),
		maxSteps:   60_000_000, maxUnwind: 300000, maxValues: 300, maxAlloc: 1 << 22,
		maxPaths: 1 << 30, solverKind: "z3", solverTO: 30000, nworkers: 8,
	}
	e.cond = sync.NewCond(&e.mu)
	for _, p := range defaultAllowedPkgs {
		e.allowedPkg[p] = true
	}
	e.allowedPkg[e.mainPkg.Pkg.Path()] = true
	for _, f := range defaultAllowedFns {
		e.allowedFn[f] = true
	}
	e.installIntrinsics()
	e.installNative()
	for callee, h := range defaultRedirects {
		if h == "" {
			continue
		}
		if f := e.mainPkg.Func(h); f != nil {
			e.redirects[callee] = f
		}
	}
	return e, nil
}

func (e *Engine) blockedPkg(path string) bool {
	return !e.allowedPkg[path]
}

func (e *Engine) lookupMethod(t types.Type, meth *types.Func) *ssa.Function {
	type key struct {
		t types.Type
		m string
	}
	// cache by type string (types.Type identity may vary for equal types)
	k := typeName(t) + "#" + meth.Id()
	if f, ok := e.methodCache.Load(k); ok {
		return f.(*ssa.Function)
	}
	f := e.prog.LookupMethod(t, meth.Pkg(), meth.Name())
	if f != nil {
		e.methodCache.Store(k, f)
	}
	return f
}

// ---------- workers and exploration ----------

type worker struct {
	id         int
	eng        *Engine
	ctx        *Ctx
	solver     *Solver
	stdGlobals map[*ssa.Global]*value
	stdInit    map[*ssa.Package]bool
	hidden     int
	local      [][]decision
}

func (w *worker) push(p []decision) {
	e := w.eng
	e.mu.Lock()
	e.queue = append(e.queue, p)
	e.mu.Unlock()
	e.cond.Signal()
}

// initStdPackage zero-allocates the globals of pkg and runs its initialiser
// concretely (calls to other packages' initialisers are skipped; they run
// lazily on first access).
func (w *worker) initStdPackage(m *machine, pkg *ssa.Package) {
	if w.stdInit[pkg] {
		return
	}
	w.stdInit[pkg] = true
	for _, mem := range pkg.Members {
		if g, ok := mem.(*ssa.Global); ok {
			cell := new(value)
			func() {
				defer func() {
					if r := recover(); r != nil {
						*cell = &opaque{tag: "global " + g.String()}
					}
				}()
				et := g.Type().(*types.Pointer).Elem()
				*cell = m.zero(et)
				if _, isIface := et.Underlying().(*types.Interface); isIface && !w.eng.allowedPkg[pkg.Pkg.Path()] {
					// globals of non-executed packages (crypto/rand.Reader, ...) are
					// distinct opaque singletons rather than nil
					*cell = iface{t: rtErrType, v: &opaque{tag: g.String()}}
				}
			}()
			w.stdGlobals[g] = cell
		}
	}
	if !w.eng.allowedPkg[pkg.Pkg.Path()] {
		return // globals of non-executed packages stay zero / opaque
	}
	init := pkg.Func("init")
	if init == nil || init.Blocks == nil {
		return
	}
	saveInstr, saveDepth, savePC := m.curInstr, m.depth, m.pc
	saveUnwind, saveAlloc := m.unwind, m.allocMax
	m.unwind, m.allocMax = 0, 0
	func() {
		defer func() {
			if r := recover(); r != nil {
				if pe, ok := r.(pathEnd); ok {
					m.note(fmt.Sprintf("init of %s stopped: %s %s", pkg.Pkg.Path(), pe.status, pe.detail))
					return
				}
				if tp, ok := r.(*targetPanic); ok {
					m.note(fmt.Sprintf("init of %s panicked: %s", pkg.Pkg.Path(), m.panicString(tp)))
					return
				}
				panic(r)
			}
		}()
		m.callFunction(nil, init, nil, nil)
	}()
	m.curInstr, m.depth, m.pc = saveInstr, saveDepth, savePC
	m.unwind, m.allocMax = saveUnwind, saveAlloc
}

type AssertStat struct {
	Discharged int `json:"discharged"`
	Trivial    int `json:"trivially_true"`
	Normalised int `json:"normalised_true_over_symbolic_operands"`
	Violated   int `json:"violated"`
	Unknown    int `json:"unknown"`
}

type ViolationOut struct {
	Kind     string            `json:"kind"`
	ID       string            `json:"id"`
	Detail   string            `json:"detail"`
	Nondets  []WitnessVal      `json:"nondets"`
	Params   map[string]int    `json:"params"`
	Harness  string            `json:"harness"`
	Trace    []decision        `json:"trace,omitempty"`
	Replayed string            `json:"replayed,omitempty"`
	Extra    map[string]string `json:"extra,omitempty"`
}

type WitnessVal struct {
	Name  string `json:"name"`
	Kind  string `json:"kind"`
	Value uint64 `json:"value"`
	N     int    `json:"n,omitempty"`
}

type HarnessResult struct {
	Harness       string                 `json:"harness"`
	Params        map[string]int         `json:"params"`
	Paths         map[string]int         `json:"paths"`
	TotalPaths    int                    `json:"total_paths"`
	Asserts       map[string]*AssertStat `json:"asserts"`
	Witnesses     map[string]int         `json:"witnesses"`
	Violations    []ViolationOut         `json:"violations"`
	NViolations   int                    `json:"n_violations"`
	Inconclusive  []string               `json:"inconclusive"`
	NInconcl      int                    `json:"n_inconclusive"`
	Notes         []string               `json:"notes,omitempty"`
	Functions     map[string]int         `json:"functions"`
	FuncInstrs    map[string]int         `json:"function_instrs"`
	Solver        SolverStats            `json:"solver"`
	SolverS       float64                `json:"solver_s"`
	WallS         float64                `json:"wall_s"`
	Steps         int64                  `json:"steps"`
	Complete      bool                   `json:"complete"`
	Samples       []string               `json:"samples,omitempty"`
	NontrivPaths  int                    `json:"nontrivial_paths"`
	SymbolicPaths int                    `json:"symbolic_paths"`
	EngineBugs    []string               `json:"engine_bugs,omitempty"`
	Nondets       int                    `json:"max_nondets"`
	StoppedEarly  bool                   `json:"stopped_after_violations,omitempty"`
}

func (e *Engine) runHarness(name string) *HarnessResult {
	entry := e.mainPkg.Func(name)
	res := &HarnessResult{
		Harness: name, Params: e.params,
		Paths: map[string]int{}, Asserts: map[string]*AssertStat{}, Witnesses: map[string]int{},
		Functions: map[string]int{}, FuncInstrs: map[string]int{},
	}
	if entry == nil {
		res.EngineBugs = append(res.EngineBugs, "harness function not found: "+name)
		return res
	}
	e.res = res
	e.queue = [][]decision{nil}
	e.active = 0
	e.stopped = false
	t0 := time.Now()
	var wg sync.WaitGroup
	workers := make([]*worker, e.nworkers)
	for i := range workers {
		w := &worker{id: i, eng: e, stdGlobals: map[*ssa.Global]*value{}, stdInit: map[*ssa.Package]bool{}}
		workers[i] = w
		wg.Add(1)
		go func() {
			defer wg.Done()
			w.loop(entry)
		}()
	}
	wg.Wait()
	for _, w := range workers {
		if w.solver != nil {
			s := w.solver.Stats
			res.Solver.Queries += s.Queries
			res.Solver.Sat += s.Sat
			res.Solver.Unsat += s.Unsat
			res.Solver.Unknown += s.Unknown
			res.Solver.Errors += s.Errors
			res.Solver.Time += s.Time
			res.Solver.Restarts += s.Restarts
			res.Solver.ValuesTime += s.ValuesTime
			res.Solver.ValuesCalls += s.ValuesCalls
			if s.MaxQuery > res.Solver.MaxQuery {
				res.Solver.MaxQuery = s.MaxQuery
			}
			w.solver.Close()
		}
	}
	res.SolverS = res.Solver.Time.Seconds()
	res.WallS = time.Since(t0).Seconds()
	res.Complete = (!e.stopped && len(e.queue) == 0) || res.StoppedEarly
	sort.Strings(res.Inconclusive)
	return res
}

func (w *worker) loop(entry *ssa.Function) {
	e := w.eng
	for {
		e.mu.Lock()
		for len(e.queue) == 0 && e.active > 0 && !e.stopped {
			e.cond.Wait()
		}
		if e.stopped || (len(e.queue) == 0 && e.active == 0) {
			e.mu.Unlock()
			e.cond.Broadcast()
			return
		}
		// LIFO: depth first keeps solver stacks similar
		p := e.queue[len(e.queue)-1]
		e.queue = e.queue[:len(e.queue)-1]
		e.active++
		if e.res.TotalPaths >= e.maxPaths || (!e.deadline.IsZero() && time.Now().After(e.deadline)) {
			e.stopped = true
			e.queue = append(e.queue, p)
			e.active--
			e.mu.Unlock()
			e.cond.Broadcast()
			return
		}
		e.res.TotalPaths++
		e.mu.Unlock()

		if w.ctx == nil || w.ctx.nextID > 3_000_000 {
			// fresh term table (and solver) to bound memory
			if w.solver != nil {
				w.solver.Close()
			}
			w.ctx = NewCtx()
			w.solver = NewSolverKeepStats(w.ctx, e.solverKind, e.solverTO, w.solver)
			w.stdGlobals = map[*ssa.Global]*value{}
			w.stdInit = map[*ssa.Package]bool{}
		}
		m := &machine{
			eng: e, w: w, ctx: w.ctx, solver: w.solver, prefix: p,
			globals: map[*ssa.Global]*value{}, initDone: map[*ssa.Package]bool{},
			onces: map[*value]bool{}, onceState: map[*value]int{}, pools: map[*value][]value{}, mutexes: map[*value]bool{},
			side: map[string]value{}, entered: map[*ssa.Function]int{},
		}
		r := m.runPath(entry)
		w.record(r)

		e.mu.Lock()
		e.active--
		e.mu.Unlock()
		e.cond.Broadcast()
	}
}

func NewSolverKeepStats(ctx *Ctx, kind string, to int, old *Solver) *Solver {
	s := NewSolver(ctx, kind, to)
	if old != nil {
		s.Stats = old.Stats
	}
	return s
}

func (w *worker) record(r pathResult) {
	e := w.eng
	m := r.m
	e.mu.Lock()
	defer e.mu.Unlock()
	res := e.res
	if e.concrete != nil {
		e.selfDigest = m.digest
		e.selfStatus = r.status
		e.selfNondets = nil
		for _, n := range m.nondets {
			val, _ := n.Term.Const()
			e.selfNondets = append(e.selfNondets, WitnessVal{Name: n.Name, Kind: n.Kind, Value: val, N: n.Extra})
		}
	}
	res.Paths[r.status]++
	res.Steps += int64(m.steps)
	if len(m.nondets) > res.Nondets {
		res.Nondets = len(m.nondets)
	}
	nontriv := false
	symb := false
	for _, a := range m.asserts {
		st := res.Asserts[a.ID]
		if st == nil {
			st = &AssertStat{}
			res.Asserts[a.ID] = st
		}
		switch a.Result {
		case "discharged":
			st.Discharged++
			nontriv = true
		case "trivially-true":
			st.Trivial++
		case "normalised-true":
			st.Normalised++
			symb = true
		case "violated", "trivially-false":
			st.Violated++
		case "unknown":
			st.Unknown++
		}
	}
	if nontriv {
		res.NontrivPaths++
	}
	if nontriv || symb {
		res.SymbolicPaths++
	}
	if r.status == "done" {
		for _, wid := range m.witnesses {
			res.Witnesses[wid]++
		}
		if len(res.Samples) < 6 && (nontriv || symb) {
			res.Samples = append(res.Samples, m.describePath())
		}
	}
	for fn, n := range m.entered {
		name := fn.String()
		if _, ok := res.Functions[name]; !ok {
			cnt := 0
			for _, b := range fn.Blocks {
				cnt += len(b.Instrs)
			}
			res.FuncInstrs[name] = cnt
		}
		res.Functions[name] += n
	}
	for _, n := range m.notes {
		if len(res.Notes) < 40 && !containsStr(res.Notes, n) {
			res.Notes = append(res.Notes, n)
		}
	}
	switch r.status {
	case "done", "infeasible", "assume", "exhausted":
	case "violation", "panic", "deadlock":
		res.NViolations++
		if e.stopAfterViol > 0 && res.NViolations >= 40 {
			e.stopped = true
			res.StoppedEarly = true
		}
		v := m.violation
		if v == nil {
			// target panic / deadlock: get a model of the pc
			kind := r.status
			func() {
				defer func() { recover() }()
				m.violate(kind, kind, r.detail)
			}()
			v = m.violation
		}
		if v != nil && len(res.Violations) < 40 {
			// keep up to six witnesses per assertion, from different configurations (the
			// leading choices): a later one may replay natively where the first does
			// not (e.g. a TLS path, or a fault kind whose effect differs under a stub)
			sig := func(ns []WitnessVal) string {
				s, k := "", 0
				for _, n := range ns {
					if n.Kind == "choose" {
						s += fmt.Sprintf("%d,", n.Value)
						if k++; k == 5 {
							break
						}
					}
				}
				return s
			}
			var cur []WitnessVal
			for _, n := range m.nondets {
				val := uint64(0)
				if v.Model != nil {
					val = v.Model[n.Name]
				}
				cur = append(cur, WitnessVal{Name: n.Name, Kind: n.Kind, Value: val, N: n.Extra})
			}
			same, dup := 0, false
			for _, o := range res.Violations {
				if o.Kind == v.Kind && o.ID == v.ID && o.Detail == v.Detail {
					same++
					if same >= 2 && sig(o.Nondets) == sig(cur) {
						dup = true
					}
				}
			}
			if same < 6 && !dup {
				out := ViolationOut{Kind: v.Kind, ID: v.ID, Detail: v.Detail, Params: e.params, Harness: res.Harness, Trace: m.trace}
				for _, n := range m.nondets {
					val := uint64(0)
					if v.Model != nil {
						val = v.Model[n.Name]
					}
					out.Nondets = append(out.Nondets, WitnessVal{Name: n.Name, Kind: n.Kind, Value: val, N: n.Extra})
				}
				res.Violations = append(res.Violations, out)
				if e.stopAfterViol > 0 && len(res.Violations) >= 3*e.stopAfterViol {
					e.stopped = true
					res.StoppedEarly = true
				}
			}
		}
	case "enginebug":
		res.NInconcl++
		if len(res.EngineBugs) < 5 {
			res.EngineBugs = append(res.EngineBugs, r.engineBug)
		}
	default: // unwind, unsupported, unknown, limit
		res.NInconcl++
		msg := r.status + ": " + r.detail
		if len(res.Inconclusive) < 30 && !containsStr(res.Inconclusive, msg) {
			res.Inconclusive = append(res.Inconclusive, msg)
		}
	}
}

func containsStr(l []string, s string) bool {
	for _, x := range l {
		if x == s {
			return true
		}
	}
	return false
}

func (m *machine) describePath() string {
	var sb strings.Builder
	fmt.Fprintf(&sb, "path: %d decisions, %d nondets, pc=%d conjuncts; asserts:", len(m.trace), len(m.nondets), len(m.pc))
	for _, a := range m.asserts {
		fmt.Fprintf(&sb, " %s=%s", a.ID, a.Result)
	}
	if len(m.pc) > 0 {
		s := m.pc[len(m.pc)-1].String()
		if len(s) > 160 {
			s = s[:160] + "…"
		}
		fmt.Fprintf(&sb, "; last pc conjunct: %s", s)
	}
	return sb.String()
}

func (e *Engine) concreteValue(kind string, w int) uint64 {
	e.concMu.Lock()
	defer e.concMu.Unlock()
	r := e.concrete
	switch kind {
	case "i64", "u64":
		switch r.Intn(10) {
		case 0:
			return r.Uint64()
		case 1:
			return uint64(int64(-1 - r.Intn(4)))
		default:
			return uint64(r.Intn(14))
		}
	case "bool":
		return uint64(r.Intn(2))
	case "byte":
		// mostly printable ASCII, so that harness assumptions about text inputs hold often
		if r.Intn(10) < 9 {
			return uint64(0x21 + r.Intn(0x5e))
		}
	}
	return r.Uint64() & mask(maxInt(w, 1))
}

func (e *Engine) concreteChoice(n int) int {
	e.concMu.Lock()
	defer e.concMu.Unlock()
	if n <= 1 {
		return 0
	}
	return e.concrete.Intn(n)
}

// utf8DecodeFn: unicode/utf8.DecodeRuneInString from the loaded program (nil if absent).
func (e *Engine) utf8DecodeFn() *ssa.Function {
	for _, p := range e.prog.AllPackages() {
		if p.Pkg.Path() == "unicode/utf8" {
			p.Build()
			return p.Func("DecodeRuneInString")
		}
	}
	return nil
}

package main

import (
	"encoding/json"
	"flag"
	"fmt"
	"os"
	"path/filepath"
	"runtime/pprof"
	"strconv"
	"strings"
	"time"
)

func harnessOverlay(repo, hdir string) (map[string][]byte, error) {
	ov := map[string][]byte{}
	files, _ := filepath.Glob(filepath.Join(hdir, "*.go"))
	for _, f := range files {
		if strings.HasSuffix(f, "_test.go") {
			continue
		}
		b, err := os.ReadFile(f)
		if err != nil {
			return nil, err
		}
		ov[filepath.Join(repo, "zz_verif_"+filepath.Base(f))] = b
	}
	return ov, nil
}

func parseParams(s string, into map[string]int) {
	if s == "" {
		return
	}
	for _, kv := range strings.Split(s, ",") {
		p := strings.SplitN(kv, "=", 2)
		if len(p) != 2 {
			continue
		}
		v, _ := strconv.Atoi(p[1])
		into[p[0]] = v
	}
}

func cmdRun(args []string) int {
	fs := flag.NewFlagSet("run", flag.ExitOnError)
	repo := fs.String("repo", "/repo", "repository")
	hdir := fs.String("harness-dir", "/verif/harness", "harness directory")
	hs := fs.String("H", "", "harness function(s), comma separated")
	ps := fs.String("p", "", "params k=v,...")
	workers := fs.Int("workers", 8, "workers")
	timeout := fs.Int("timeout", 600, "wall seconds per harness")
	out := fs.String("out", "", "result json")
	trace := fs.Bool("trace", false, "trace calls")
	solver := fs.String("solver", "z3", "z3|z3-new|cvc5")
	maxPaths := fs.Int("max-paths", 1<<30, "path limit")
	smtlog := fs.String("smtlog", "", "log SMT of worker 0")
	cpuprof := fs.String("cpuprofile", "", "write cpu profile")
	fs.Parse(args)
	if *cpuprof != "" {
		f, _ := os.Create(*cpuprof)
		pprof.StartCPUProfile(f)
		defer pprof.StopCPUProfile()
	}
	ov, err := harnessOverlay(*repo, *hdir)
	if err != nil {
		fmt.Fprintln(os.Stderr, err)
		return 2
	}
	t0 := time.Now()
	e, err := loadEngine(*repo, ov, "verif")
	if err != nil {
		fmt.Fprintln(os.Stderr, "load:", err)
		return 2
	}
	fmt.Fprintf(os.Stderr, "loaded+built SSA in %.1fs\n", time.Since(t0).Seconds())
	parseParams(*ps, e.params)
	e.nworkers = *workers
	e.traceCalls = *trace
	e.traceInstr = os.Getenv("GOSMT_TRACE_INSTR") != ""
	if os.Getenv("GOSMT_SLOW") != "" {
		slowLog = func(d time.Duration, r SatResult, where string) {
			fmt.Fprintf(os.Stderr, "SLOW %.1fs %s %s\n", d.Seconds(), r, where)
		}
	}
	if os.Getenv("GOSMT_SITES") != "" {
		e.siteStats = map[string]int{}
		defer func() {
			for k, v := range e.siteStats {
				fmt.Printf("SITE %6d %s\n", v, k)
			}
		}()
	}
	e.solverKind = *solver
	e.maxPaths = *maxPaths
	smtLogFile = *smtlog
	rc := 0
	var all []*HarnessResult
	for _, h := range strings.Split(*hs, ",") {
		e.deadline = time.Now().Add(time.Duration(*timeout) * time.Second)
		r := e.runHarness(h)
		all = append(all, r)
		printSummary(r)
		if r.NViolations > 0 || len(r.EngineBugs) > 0 {
			rc = 1
		}
	}
	if *out != "" {
		b, _ := json.MarshalIndent(all, "", " ")
		os.WriteFile(*out, b, 0o644)
	}
	return rc
}

var smtLogFile string

func printSummary(r *HarnessResult) {
	fmt.Printf("== %s params=%v paths=%d %v complete=%v wall=%.1fs solver=%.1fs queries=%d (sat %d unsat %d unknown %d) steps=%d\n",
		r.Harness, r.Params, r.TotalPaths, r.Paths, r.Complete, r.WallS, r.SolverS, r.Solver.Queries, r.Solver.Sat, r.Solver.Unsat, r.Solver.Unknown, r.Steps)
	fmt.Printf("   values: %d calls %.1fs\n", r.Solver.ValuesCalls, r.Solver.ValuesTime.Seconds())
	for id, a := range r.Asserts {
		fmt.Printf("   assert %-30s discharged=%d normalised=%d trivial=%d violated=%d unknown=%d\n", id, a.Discharged, a.Normalised, a.Trivial, a.Violated, a.Unknown)
	}
	for id, n := range r.Witnesses {
		fmt.Printf("   witness %-29s %d\n", id, n)
	}
	for _, v := range r.Violations {
		fmt.Printf("   VIOLATION-CANDIDATE %s %s: %s\n", v.Kind, v.ID, v.Detail)
	}
	for _, s := range r.Inconclusive {
		fmt.Printf("   INCONCLUSIVE %s\n", s)
	}
	for _, s := range r.EngineBugs {
		fmt.Printf("   ENGINE-BUG %s\n", s)
	}
	for _, s := range r.Notes {
		fmt.Printf("   note: %s\n", s)
	}
}

func main() {
	if len(os.Args) < 2 {
		fmt.Fprintln(os.Stderr, "usage: gosmt run|check|replay|selftest ...")
		os.Exit(2)
	}
	switch os.Args[1] {
	case "run":
		os.Exit(cmdRun(os.Args[2:]))
	case "check":
		os.Exit(cmdCheck(os.Args[2:]))
	case "replay":
		os.Exit(cmdReplay(os.Args[2:]))
	case "selftest":
		os.Exit(cmdSelftest(os.Args[2:]))
	default:
		fmt.Fprintln(os.Stderr, "unknown command")
		os.Exit(2)
	}
}

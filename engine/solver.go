package main

// One persistent SMT solver process per worker, driven incrementally.
// The assertion stack mirrors the path condition; shared sub-terms are
// introduced once with define-fun under :global-declarations.

import (
	"bufio"
	"fmt"
	"io"
	"os/exec"
	"strconv"
	"strings"
	"time"
)

type SatResult int

const (
	Unsat SatResult = iota
	Sat
	Unknown
)

func (r SatResult) String() string {
	return [...]string{"unsat", "sat", "unknown"}[r]
}

type SolverStats struct {
	Queries     int
	Sat         int
	Unsat       int
	Unknown     int
	Errors      int
	Time        time.Duration
	MaxQuery    time.Duration
	Restarts    int
	ValuesTime  time.Duration
	ValuesCalls int
}

var slowLog func(d time.Duration, r SatResult, where string)

type Solver struct {
	where   string
	kind    string // "z3", "z3-new", "cvc5"
	cmd     *exec.Cmd
	in      *bufio.Writer
	inRaw   io.WriteCloser
	out     *bufio.Reader
	ctx     *Ctx
	stack   []*Term
	sent    []*Term
	seq     int
	timeout int // ms per query
	Stats   SolverStats
	log     io.Writer
	lastErr string
}

func NewSolver(ctx *Ctx, kind string, timeoutMs int) *Solver {
	s := &Solver{kind: kind, ctx: ctx, timeout: timeoutMs}
	s.start()
	return s
}

func (s *Solver) start() {
	var cmd *exec.Cmd
	switch s.kind {
	case "cvc5":
		cmd = exec.Command("cvc5", "--incremental", "--produce-models", "--lang=smt2", fmt.Sprintf("--tlimit-per=%d", s.timeout))
	case "z3-new":
		cmd = exec.Command("z3-new", "-in")
	default:
		cmd = exec.Command("z3", "-in")
	}
	inp, err := cmd.StdinPipe()
	if err != nil {
		panic(err)
	}
	outp, err := cmd.StdoutPipe()
	if err != nil {
		panic(err)
	}
	cmd.Stderr = cmd.Stdout
	if err := cmd.Start(); err != nil {
		panic(fmt.Sprintf("cannot start solver %s: %v", s.kind, err))
	}
	s.cmd = cmd
	s.inRaw = inp
	s.in = bufio.NewWriterSize(inp, 1<<16)
	s.out = bufio.NewReaderSize(outp, 1<<16)
	s.stack = s.stack[:0]
	for _, t := range s.sent {
		t.sent = false
	}
	s.sent = s.sent[:0]
	s.send("(set-option :global-declarations true)")
	if s.kind != "cvc5" {
		s.send(fmt.Sprintf("(set-option :timeout %d)", s.timeout))
	} else {
		s.send("(set-logic QF_BV)")
	}
}

func (s *Solver) Close() {
	if s.cmd != nil {
		s.inRaw.Close()
		s.cmd.Process.Kill()
		s.cmd.Wait()
		s.cmd = nil
	}
}

func (s *Solver) restart() {
	s.Close()
	s.Stats.Restarts++
	s.start()
}

func (s *Solver) send(line string) {
	if s.log != nil {
		fmt.Fprintln(s.log, line)
	}
	s.in.WriteString(line)
	s.in.WriteByte('\n')
}

// define declares the variables of t and returns its SMT-LIB text, with
// let-bindings for sub-terms that occur more than once.
func (s *Solver) define(t *Term) string {
	if t.op == OpConst || t.op == OpVar {
		if t.op == OpVar && !t.sent {
			s.send(fmt.Sprintf("(declare-const %s %s)", t.name, sortStr(t.w)))
			t.sent = true
			s.sent = append(s.sent, t)
		}
		return t.ref()
	}
	// pass 1: parent counts (iterative DFS), declaring variables on the way
	cnt := map[*Term]int{}
	var order []*Term // post-order
	type fr struct {
		t *Term
		i int
	}
	st := []fr{{t, 0}}
	cnt[t] = 1
	for len(st) > 0 {
		f := &st[len(st)-1]
		if f.i < int(f.t.na) {
			ch := f.t.a[f.i]
			f.i++
			if ch.op == OpConst {
				continue
			}
			if ch.op == OpVar {
				if !ch.sent {
					s.send(fmt.Sprintf("(declare-const %s %s)", ch.name, sortStr(ch.w)))
					ch.sent = true
					s.sent = append(s.sent, ch)
				}
				continue
			}
			cnt[ch]++
			if cnt[ch] == 1 {
				st = append(st, fr{ch, 0})
			}
			continue
		}
		order = append(order, f.t)
		st = st[:len(st)-1]
	}
	// pass 2: text of each node, inlining nodes used once
	txt := make(map[*Term]string, len(order))
	var lets []string
	for _, x := range order {
		var sb strings.Builder
		switch x.op {
		case OpExtract:
			fmt.Fprintf(&sb, "((_ extract %d %d) %s)", x.cval>>8, x.cval&0xff, childText(x.a[0], txt))
		case OpZExt:
			fmt.Fprintf(&sb, "((_ zero_extend %d) %s)", int(x.w)-int(x.a[0].w), childText(x.a[0], txt))
		case OpSExt:
			fmt.Fprintf(&sb, "((_ sign_extend %d) %s)", int(x.w)-int(x.a[0].w), childText(x.a[0], txt))
		default:
			sb.WriteByte('(')
			sb.WriteString(opNames[x.op])
			for i := 0; i < int(x.na); i++ {
				sb.WriteByte(' ')
				sb.WriteString(childText(x.a[i], txt))
			}
			sb.WriteByte(')')
		}
		if cnt[x] > 1 && x != t {
			name := fmt.Sprintf("t%d", x.id)
			lets = append(lets, "(let (("+name+" "+sb.String()+")) ")
			txt[x] = name
		} else {
			txt[x] = sb.String()
		}
	}
	if len(lets) == 0 {
		return txt[t]
	}
	var out strings.Builder
	for _, l := range lets {
		out.WriteString(l)
	}
	out.WriteString(txt[t])
	for range lets {
		out.WriteByte(')')
	}
	return out.String()
}

func childText(c *Term, txt map[*Term]string) string {
	if c.op == OpConst || c.op == OpVar {
		return c.ref()
	}
	return txt[c]
}

// sync makes the solver's assertion stack equal to pc.
func (s *Solver) sync(pc []*Term) {
	n := 0
	for n < len(pc) && n < len(s.stack) && pc[n] == s.stack[n] {
		n++
	}
	if d := len(s.stack) - n; d > 0 {
		s.send(fmt.Sprintf("(pop %d)", d))
		s.stack = s.stack[:n]
	}
	for _, t := range pc[n:] {
		txt := s.define(t)
		s.send("(push 1)")
		s.send("(assert " + txt + ")")
		s.stack = append(s.stack, t)
	}
}

// roundtrip sends cmd followed by an echo marker and returns the lines
// printed in between.
func (s *Solver) roundtrip(cmd string) ([]string, error) {
	s.seq++
	marker := fmt.Sprintf("<<%d>>", s.seq)
	s.send(cmd)
	s.send(fmt.Sprintf("(echo \"%s\")", marker))
	if err := s.in.Flush(); err != nil {
		return nil, err
	}
	var lines []string
	for {
		line, err := s.out.ReadString('\n')
		if err != nil {
			return lines, err
		}
		line = strings.TrimSpace(line)
		if line == marker || line == "\""+marker+"\"" {
			return lines, nil
		}
		if line != "" {
			lines = append(lines, line)
		}
	}
}

// Check decides satisfiability of pc ∧ extra (extra may be nil).
func (s *Solver) Check(pc []*Term, extra *Term) SatResult {
	if extra != nil && extra.op == OpConst {
		if extra.cval == 0 {
			return Unsat
		}
		extra = nil
	}
	t0 := time.Now()
	s.sync(pc)
	if extra != nil {
		txt := s.define(extra)
		s.send("(push 1)")
		s.send("(assert " + txt + ")")
	}
	lines, err := s.roundtrip("(check-sat)")
	res := Unknown
	if err != nil {
		s.lastErr = fmt.Sprintf("solver io error: %v", err)
		s.Stats.Errors++
		s.restart()
	} else {
		bad := false
		for _, l := range lines {
			if strings.HasPrefix(l, "(error") {
				bad = true
				s.lastErr = l
			}
		}
		if bad {
			s.Stats.Errors++
		} else if len(lines) > 0 {
			switch lines[len(lines)-1] {
			case "sat":
				res = Sat
			case "unsat":
				res = Unsat
			}
		}
		if extra != nil && res != Sat {
			s.send("(pop 1)")
		} else if extra != nil {
			// keep the frame so that a model can be fetched; mark it
			s.stack = append(s.stack, extra)
		}
	}
	d := time.Since(t0)
	if slowLog != nil && d > 500*time.Millisecond {
		slowLog(d, res, s.where)
	}
	s.Stats.Queries++
	s.Stats.Time += d
	if d > s.Stats.MaxQuery {
		s.Stats.MaxQuery = d
	}
	switch res {
	case Sat:
		s.Stats.Sat++
	case Unsat:
		s.Stats.Unsat++
	default:
		s.Stats.Unknown++
	}
	return res
}

// Values fetches model values of the given terms; must follow a Sat answer.
func (s *Solver) Values(ts []*Term) (map[*Term]uint64, error) {
	t0 := time.Now()
	defer func() { s.Stats.ValuesTime += time.Since(t0); s.Stats.ValuesCalls++ }()
	res := make(map[*Term]uint64)
	var q []*Term
	for _, t := range ts {
		if t.op == OpConst {
			res[t] = t.cval
			continue
		}
		if t.op != OpVar {
			return nil, fmt.Errorf("get-value of a non-variable term")
		}
		s.define(t)
		q = append(q, t)
	}
	const chunk = 200
	for i := 0; i < len(q); i += chunk {
		j := i + chunk
		if j > len(q) {
			j = len(q)
		}
		var sb strings.Builder
		sb.WriteString("(get-value (")
		for _, t := range q[i:j] {
			sb.WriteString(t.ref())
			sb.WriteByte(' ')
		}
		sb.WriteString("))")
		lines, err := s.roundtrip(sb.String())
		if err != nil {
			return nil, err
		}
		txt := strings.Join(lines, " ")
		if strings.Contains(txt, "(error") {
			return nil, fmt.Errorf("get-value: %s", txt)
		}
		vals := parseValues(txt)
		if len(vals) != j-i {
			return nil, fmt.Errorf("get-value: expected %d values, got %d in %q", j-i, len(vals), txt)
		}
		for k, t := range q[i:j] {
			res[t] = vals[k]
		}
	}
	return res, nil
}

// parseValues extracts the value literals, in order, from a get-value reply
// of the form ((name value) (name value) ...).
func parseValues(txt string) []uint64 {
	var out []uint64
	toks := tokenize(txt)
	// pattern: ( ( name value ) ( name value ) ... ) where value is a single
	// token or (_ bvN W)
	depth := 0
	for i := 0; i < len(toks); i++ {
		switch toks[i] {
		case "(":
			depth++
			if depth == 2 {
				// name is toks[i+1] (may itself be complex? names are atoms)
				j := i + 2
				if j < len(toks) {
					if toks[j] == "(" && j+2 < len(toks) && toks[j+1] == "_" {
						v := strings.TrimPrefix(toks[j+2], "bv")
						n, _ := strconv.ParseUint(v, 10, 64)
						out = append(out, n)
					} else {
						out = append(out, parseLit(toks[j]))
					}
				}
				// skip to matching close
				d := 1
				k := i + 1
				for ; k < len(toks) && d > 0; k++ {
					if toks[k] == "(" {
						d++
					} else if toks[k] == ")" {
						d--
					}
				}
				i = k - 1
				depth--
			}
		case ")":
			depth--
		}
	}
	return out
}

func parseLit(s string) uint64 {
	switch {
	case s == "true":
		return 1
	case s == "false":
		return 0
	case strings.HasPrefix(s, "#x"):
		n, _ := strconv.ParseUint(s[2:], 16, 64)
		return n
	case strings.HasPrefix(s, "#b"):
		n, _ := strconv.ParseUint(s[2:], 2, 64)
		return n
	}
	n, _ := strconv.ParseUint(s, 10, 64)
	return n
}

func tokenize(s string) []string {
	var toks []string
	cur := strings.Builder{}
	flush := func() {
		if cur.Len() > 0 {
			toks = append(toks, cur.String())
			cur.Reset()
		}
	}
	for _, r := range s {
		switch r {
		case '(', ')':
			flush()
			toks = append(toks, string(r))
		case ' ', '\t', '\n', '\r':
			flush()
		default:
			cur.WriteRune(r)
		}
	}
	flush()
	return toks
}

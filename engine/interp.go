package main

// Small-step symbolic interpreter over go/ssa. One machine executes one path
// from the harness entry; forks are recorded as decision prefixes and
// re-executed (stateless DFS), so the heap is ordinary mutable Go data.

import (
	"fmt"
	"go/constant"
	"go/token"
	"go/types"
	"os"
	"runtime/debug"
	"strings"

	"golang.org/x/tools/go/ssa"
)

type decision struct {
	Kind byte     `json:"k"`           // 'b' branch, 'v' concretised value
	B    bool     `json:"b,omitempty"` // branch taken
	V    uint64   `json:"v,omitempty"` // value chosen
	Excl []uint64 `json:"x,omitempty"` // 'x': choose a value not in Excl
}

// pathEnd terminates the current path (Go panic payload).
type pathEnd struct {
	status string // "done", "infeasible", "assume", "unwind", "unsupported", "deadlock", "exhausted", "limit"
	detail string
}

// targetPanic is a panic in the interpreted program.
type targetPanic struct {
	v    value
	site string
}

type nondetRec struct {
	Name  string
	Term  *Term
	Kind  string // "byte","u16","u32","i64","bool","choose","param"
	Extra int
}

type deferred struct {
	fn   value
	args []value
	next *deferred
	site ssa.Instruction
}

type frame struct {
	m         *machine
	caller    *frame
	fn        *ssa.Function
	block     *ssa.BasicBlock
	prevBlock *ssa.BasicBlock
	env       map[ssa.Value]value
	defers    *deferred
	result    value
	panicking bool
	panicVal  *targetPanic
	visits    map[int]int
	depth     int
}

type assertRec struct {
	ID      string
	Trivial bool
	Result  string // "discharged","violated","unknown","trivially-true","trivially-false"
	PCSize  int
}

type machine struct {
	eng    *Engine
	w      *worker
	ctx    *Ctx
	solver *Solver

	pc     []*Term
	prefix []decision
	di     int
	trace  []decision

	globals     map[*ssa.Global]*value
	initDone    map[*ssa.Package]bool
	arrays      []arrInfo
	nondets     []nondetRec
	steps       int
	depth       int
	curInstr    ssa.Instruction
	curFn       *ssa.Function
	allocMax    int64
	witnesses   []string
	asserts     []assertRec
	violation   *violationRec
	unknowns    int
	onces       map[*value]bool
	onceState   map[*value]int
	pools       map[*value][]value
	mutexes     map[*value]bool
	side        map[string]value // engine-side state for harness models
	now         *Term            // last clock instant
	entered     map[*ssa.Function]int
	notes       []string
	model       map[string]uint64 // an assignment satisfying pc, or nil
	memo        map[*Term]uint64
	hiddenVars  []*Term
	inDecide    bool
	unwind      int
	thr         *threadsState
	digest      []string
	symOperands bool
}

type violationRec struct {
	Kind   string // "assert","panic","unwind","deadlock","alloc"
	ID     string
	Detail string
	Model  map[string]uint64
}

func (m *machine) end(status, detail string) {
	panic(pathEnd{status, detail})
}

func (m *machine) unsupported(format string, args ...interface{}) {
	m.end("unsupported", fmt.Sprintf(format, args...))
}

func (m *machine) where() string {
	if m.curInstr == nil {
		return "?"
	}
	pos := m.curInstr.Pos()
	fn := m.curInstr.Parent()
	if pos == token.NoPos {
		return fn.String()
	}
	p := m.eng.prog.Fset.Position(pos)
	return fmt.Sprintf("%s (%s:%d)", fn.String(), shortFile(p.Filename), p.Line)
}

// whereShort: "file.go:line" of the current instruction ("?" if unknown).
func (m *machine) whereShort() string {
	if m.curInstr == nil || m.curInstr.Pos() == token.NoPos {
		return "?"
	}
	p := m.eng.prog.Fset.Position(m.curInstr.Pos())
	return fmt.Sprintf("%s:%d", shortFile(p.Filename), p.Line)
}

func shortFile(f string) string {
	if i := strings.LastIndex(f, "/"); i >= 0 {
		return f[i+1:]
	}
	return f
}

// ---------- decisions ----------

func (m *machine) addPC(t *Term) {
	if t.IsConst() {
		if t.cval == 0 {
			m.end("infeasible", "false added to pc")
		}
		return
	}
	m.pc = append(m.pc, t)
	if m.model != nil && !m.inDecide {
		if m.evalModel(t) == 0 {
			m.model = nil
		}
	}
}

// decide concretises a boolean term, forking if both outcomes are feasible.
func (m *machine) decide(cond *Term) bool {
	if !cond.IsBool() {
		panic("decide on non-bool")
	}
	if c, ok := cond.Const(); ok {
		return c != 0
	}
	if m.di < len(m.prefix) {
		d := m.prefix[m.di]
		m.di++
		if d.Kind != 'b' {
			panic(fmt.Sprintf("decision replay mismatch: want branch, have %c at %s", d.Kind, m.where()))
		}
		m.trace = append(m.trace, d)
		if d.B {
			m.addPC(cond)
		} else {
			m.addPC(m.ctx.Not(cond))
		}
		return d.B
	}
	m.di++
	if m.eng.siteStats != nil {
		m.eng.siteMu.Lock()
		m.eng.siteStats["decide "+m.where()+" :: "+truncStr(cond.String(), 120)]++
		m.eng.siteMu.Unlock()
	}
	var take bool
	if m.model != nil {
		// the cached model tells which side is certainly feasible
		take = m.evalModel(cond) != 0
		other := cond
		if take {
			other = m.ctx.Not(cond)
		}
		r := m.chk(other)
		if r == Unknown {
			m.unknowns++
			m.note("unknown on feasibility query at " + m.where())
		}
		if r != Unsat {
			alt := make([]decision, len(m.trace), len(m.trace)+1)
			copy(alt, m.trace)
			alt = append(alt, decision{Kind: 'b', B: !take})
			m.w.push(alt)
		}
	} else {
		rT := m.chk(cond)
		switch rT {
		case Unsat:
			take = false
		default:
			if rT == Unknown {
				m.unknowns++
				m.note("unknown on feasibility query at " + m.where())
			} else {
				m.fetchModel()
			}
			rF := m.chk(m.ctx.Not(cond))
			if rF == Unknown {
				m.unknowns++
				m.note("unknown on feasibility query at " + m.where())
			}
			if rF != Unsat {
				alt := make([]decision, len(m.trace), len(m.trace)+1)
				copy(alt, m.trace)
				alt = append(alt, decision{Kind: 'b', B: false})
				m.w.push(alt)
			}
			take = true
		}
	}
	m.trace = append(m.trace, decision{Kind: 'b', B: take})
	if take {
		m.addPC(cond)
	} else {
		m.addPC(m.ctx.Not(cond))
	}
	return take
}

// fetchModel caches the solver's current model (must follow a Sat answer).
func (m *machine) fetchModel() {
	var ts []*Term
	for _, n := range m.nondets {
		if !n.Term.IsConst() {
			ts = append(ts, n.Term)
		}
	}
	ts = append(ts, m.hiddenVars...)
	vals, err := m.solver.Values(ts)
	if err != nil {
		m.model = nil
		return
	}
	m.model = make(map[string]uint64, len(ts))
	for _, t := range ts {
		m.model[t.name] = vals[t]
	}
	m.memo = make(map[*Term]uint64)
}

func (m *machine) evalModel(t *Term) uint64 {
	return m.ctx.eval(t, m.model, m.memo)
}

// concretize picks a concrete value for t, forking over all feasible values
// (bounded by eng.maxValues per site).
func (m *machine) concretize(t *Term, what string) uint64 {
	if c, ok := t.Const(); ok {
		return c
	}
	var excl []uint64
	if m.di < len(m.prefix) {
		d := m.prefix[m.di]
		switch d.Kind {
		case 'v':
			m.di++
			m.trace = append(m.trace, d)
			m.addPC(m.ctx.Eq(t, m.ctx.BV(d.V, t.Width())))
			return d.V
		case 'x':
			excl = d.Excl
		default:
			panic(fmt.Sprintf("decision replay mismatch: want value, have %c at %s", d.Kind, m.where()))
		}
	}
	m.di++
	if len(excl) > m.eng.maxValues {
		m.end("limit", fmt.Sprintf("more than %d values for %s at %s", m.eng.maxValues, what, m.where()))
	}
	var v uint64
	if m.model != nil && len(excl) == 0 {
		v = m.evalModel(t)
	} else {
		cons := m.ctx.True
		for _, e := range excl {
			cons = m.ctx.And(cons, m.ctx.Not(m.ctx.Eq(t, m.ctx.BV(e, t.Width()))))
		}
		r := m.chk(cons)
		if r == Unsat {
			m.end("exhausted", "")
		}
		if r == Unknown {
			m.unknowns++
			m.end("unknown", "concretize "+what+" at "+m.where())
		}
		m.fetchModel()
		if m.model == nil {
			m.end("unknown", "get-value failed")
		}
		v = m.evalModel(t)
	}
	alt := make([]decision, len(m.trace), len(m.trace)+1)
	copy(alt, m.trace)
	ex2 := make([]uint64, len(excl), len(excl)+1)
	copy(ex2, excl)
	ex2 = append(ex2, v)
	alt = append(alt, decision{Kind: 'x', Excl: ex2})
	m.w.push(alt)
	m.trace = append(m.trace, decision{Kind: 'v', V: v})
	m.addPC(m.ctx.Eq(t, m.ctx.BV(v, t.Width())))
	return v
}

func (m *machine) note(s string) {
	if len(m.notes) < 20 {
		m.notes = append(m.notes, s)
	}
}

func (m *machine) concInt(v value, what string) int {
	t := v.(*Term)
	c := m.concretize(t, what)
	return int(sext64(c, t.Width()))
}

func (m *machine) newVar(kind string, w int) *Term {
	if m.eng.concrete != nil {
		// self-test mode: a seeded concrete value instead of a symbolic variable
		v := m.eng.concreteValue(kind, w)
		t := m.ctx.BV(v, w)
		m.nondets = append(m.nondets, nondetRec{Name: fmt.Sprintf("n%d_%s", len(m.nondets), kind), Term: t, Kind: kind})
		return t
	}
	name := fmt.Sprintf("n%d_%s", len(m.nondets), kind)
	t := m.ctx.Var(name, w)
	m.nondets = append(m.nondets, nondetRec{Name: name, Term: t, Kind: kind})
	return t
}

// ---------- target panics ----------

var rtErrType = types.NewNamed(types.NewTypeName(token.NoPos, nil, "runtime.Error", nil), types.Typ[types.String], nil)

func (m *machine) rtPanic(msg string) {
	panic(&targetPanic{v: m.rtErr("runtime error: " + msg), site: m.where()})
}

func (m *machine) rtErr(msg string) iface {
	cell := new(value)
	*cell = strV{s: msg}
	return iface{t: rtErrType, v: cell}
}

// ---------- globals ----------

func (m *machine) global(g *ssa.Global) *value {
	if p, ok := m.globals[g]; ok {
		return p
	}
	if g.Pkg != m.eng.mainPkg {
		// shared per worker, initialised once
		if p, ok := m.w.stdGlobals[g]; ok {
			return p
		}
		m.w.initStdPackage(m, g.Pkg)
		if p, ok := m.w.stdGlobals[g]; ok {
			return p
		}
		panic("global not initialised: " + g.String())
	}
	panic("main package global missing: " + g.String())
}

func (m *machine) initMainGlobals() {
	pkg := m.eng.mainPkg
	for _, mem := range pkg.Members {
		if g, ok := mem.(*ssa.Global); ok {
			cell := new(value)
			*cell = m.zero(g.Type().(*types.Pointer).Elem())
			m.globals[g] = cell
		}
	}
	m.initDone[pkg] = true
	if init := pkg.Func("init"); init != nil {
		m.callFunction(nil, init, nil, nil)
	}
}

// ---------- frames ----------

func (fr *frame) get(key ssa.Value) value {
	switch key := key.(type) {
	case nil:
		return nil
	case *ssa.Function:
		return key
	case *ssa.Builtin:
		return key
	case *ssa.Const:
		return fr.m.constValue(key)
	case *ssa.Global:
		return fr.m.global(key)
	}
	if r, ok := fr.env[key]; ok {
		return r
	}
	panic(fmt.Sprintf("get: no value for %T: %v in %s", key, key.Name(), fr.fn))
}

func (m *machine) constValue(c *ssa.Const) value {
	t := c.Type()
	if c.Value == nil {
		return m.zero(t)
	}
	if tp, ok := t.(*types.TypeParam); ok {
		_ = tp
		panic("const of type param")
	}
	if b, ok := t.Underlying().(*types.Basic); ok {
		if w, signed, ok := bvWidth(b); ok {
			if signed {
				return m.ctx.BV(uint64(c.Int64()), w)
			}
			return m.ctx.BV(c.Uint64(), w)
		}
		switch {
		case b.Info()&types.IsBoolean != 0:
			return m.ctx.Bool(constant.BoolVal(c.Value))
		case b.Info()&types.IsString != 0:
			if c.Value.Kind() == constant.String {
				return strV{s: constant.StringVal(c.Value)}
			}
			return strV{s: string(rune(c.Int64()))}
		case b.Info()&types.IsFloat != 0:
			return c.Float64()
		}
	}
	panic(fmt.Sprintf("constValue: unsupported %s", c))
}

func (m *machine) callFunction(caller *frame, fn *ssa.Function, args []value, env []value) value {
	if m.eng.traceCalls {
		fmt.Fprintf(os.Stderr, "%*scall %s\n", m.depth, "", fn)
	}
	if fn.Blocks == nil {
		m.unsupported("call to function without body: %s at %s", fn.String(), m.where())
	}
	m.entered[fn]++
	m.depth++
	if m.depth > 400 {
		m.end("unwind", "call depth > 400 at "+fn.String())
	}
	fr := &frame{m: m, caller: caller, fn: fn, env: make(map[ssa.Value]value, 16)}
	for i, p := range fn.Params {
		fr.env[p] = args[i]
	}
	for i, fv := range fn.FreeVars {
		fr.env[fv] = env[i]
	}
	fr.block = fn.Blocks[0]
	for fr.block != nil {
		fr.runBlocks()
	}
	m.depth--
	return fr.result
}

// runBlocks runs until return or panic; target panics run the defers.
func (fr *frame) runBlocks() {
	defer func() {
		if fr.block == nil {
			return // normal return
		}
		r := recover()
		if r == nil {
			return
		}
		tp, ok := r.(*targetPanic)
		if !ok {
			panic(r) // pathEnd or engine bug: propagate
		}
		fr.panicking = true
		fr.panicVal = tp
		fr.runDefers()
		if fr.fn.Recover != nil && !fr.panicking {
			fr.block = fr.fn.Recover
			return
		}
		if !fr.panicking {
			// recovered, no recover block: return zero results (named results via Recover block normally)
			fr.block = nil
			return
		}
		panic(fr.panicVal)
	}()
	m := fr.m
	for {
		for _, instr := range fr.block.Instrs {
			m.steps++
			if m.steps > m.eng.maxSteps {
				m.end("unwind", fmt.Sprintf("step limit %d exceeded at %s", m.eng.maxSteps, m.where()))
			}
			m.curInstr = instr
			if m.eng.traceInstr {
				fmt.Fprintf(os.Stderr, "%*s%s: %s\n", m.depth, "", fr.fn.Name(), instrStr(instr))
			}
			k := fr.visit(instr)
			if m.eng.traceInstr {
				if v, ok := instr.(ssa.Value); ok {
					fmt.Fprintf(os.Stderr, "%*s   = %s\n", m.depth, "", valStr(fr.env[v]))
				}
			}
			switch k {
			case kReturn:
				fr.block = nil
				return
			case kJump:
				goto next
			}
		}
		panic("block fell through: " + fr.fn.String())
	next:
		if fr.visits == nil {
			fr.visits = make(map[int]int)
		}
		fr.visits[fr.block.Index]++
		lim := m.eng.maxUnwind
		if m.unwind > 0 {
			lim = m.unwind
		}
		if fr.visits[fr.block.Index] > lim {
			if m.unwind > 0 {
				// a harness-declared unwinding bound: exceeding it is the "hang" signal
				m.violate("unwind", "unwind-bound", fmt.Sprintf("loop in %s exceeds the declared unwinding bound %d", fr.fn, lim))
			}
			m.end("unwind", fmt.Sprintf("block visited > %d times in %s", lim, fr.fn))
		}
	}
}

func (fr *frame) runDefers() {
	for d := fr.defers; d != nil; d = d.next {
		fr.defers = d.next
		fr.m.callValue(fr, d.fn, d.args, d.site)
	}
	fr.defers = nil
}

type cont int

const (
	kNext cont = iota
	kReturn
	kJump
)

func (fr *frame) visit(instr ssa.Instruction) cont {
	m := fr.m
	switch instr := instr.(type) {
	case *ssa.DebugRef:
	case *ssa.UnOp:
		fr.env[instr] = m.unop(instr, fr.get(instr.X))
	case *ssa.BinOp:
		fr.env[instr] = m.binop(instr.Op, instr.X.Type(), fr.get(instr.X), fr.get(instr.Y))
	case *ssa.Call:
		fn, args := fr.prepareCall(&instr.Call)
		fr.env[instr] = m.callValue(fr, fn, args, instr)
		m.curInstr = instr
	case *ssa.ChangeInterface:
		fr.env[instr] = fr.get(instr.X)
	case *ssa.ChangeType:
		fr.env[instr] = fr.get(instr.X)
	case *ssa.Convert:
		fr.env[instr] = m.conv(instr.Type(), instr.X.Type(), fr.get(instr.X))
	case *ssa.MultiConvert:
		fr.env[instr] = m.conv(instr.Type(), instr.X.Type(), fr.get(instr.X))
	case *ssa.SliceToArrayPointer:
		x := fr.get(instr.X).([]value)
		n := int(instr.Type().(*types.Pointer).Elem().Underlying().(*types.Array).Len())
		if len(x) < n {
			m.rtPanic("cannot convert slice to array pointer: length too short")
		}
		if x == nil {
			fr.env[instr] = (*value)(nil)
		} else {
			cell := new(value)
			*cell = array(x[:n:n])
			fr.env[instr] = cell
		}
	case *ssa.MakeInterface:
		fr.env[instr] = iface{t: instr.X.Type(), v: fr.get(instr.X)}
	case *ssa.Extract:
		fr.env[instr] = fr.get(instr.Tuple).(tuple)[instr.Index]
	case *ssa.Slice:
		fr.env[instr] = m.slice(instr, fr.get(instr.X), fr.get(instr.Low), fr.get(instr.High), fr.get(instr.Max))
	case *ssa.Return:
		switch len(instr.Results) {
		case 0:
		case 1:
			fr.result = fr.get(instr.Results[0])
		default:
			res := make(tuple, len(instr.Results))
			for i, r := range instr.Results {
				res[i] = fr.get(r)
			}
			fr.result = res
		}
		return kReturn
	case *ssa.RunDefers:
		fr.runDefers()
	case *ssa.Panic:
		panic(&targetPanic{v: fr.get(instr.X), site: m.where()})
	case *ssa.Send:
		m.chanSend(fr.get(instr.Chan), fr.get(instr.X))
	case *ssa.Store:
		m.store(fr.get(instr.Addr), fr.get(instr.Val))
	case *ssa.If:
		succ := 1
		if m.decide(fr.get(instr.Cond).(*Term)) {
			succ = 0
		}
		fr.prevBlock, fr.block = fr.block, fr.block.Succs[succ]
		return kJump
	case *ssa.Jump:
		fr.prevBlock, fr.block = fr.block, fr.block.Succs[0]
		return kJump
	case *ssa.Defer:
		fn, args := fr.prepareCall(&instr.Call)
		fr.defers = &deferred{fn: fn, args: args, next: fr.defers, site: instr}
	case *ssa.Go:
		fn, args := fr.prepareCall(&instr.Call)
		m.spawn(fr, fn, args, instr)
	case *ssa.MakeChan:
		n := m.concInt(fr.get(instr.Size), "chan size")
		fr.env[instr] = &chanV{cap: n}
	case *ssa.Alloc:
		cell := new(value)
		*cell = m.zero(instr.Type().(*types.Pointer).Elem())
		if a, ok := (*cell).(array); ok {
			m.registerArray([]value(a), nil)
		}
		fr.env[instr] = cell
	case *ssa.MakeSlice:
		n := m.allocSize(fr.get(instr.Len), "make len")
		c := m.allocSize(fr.get(instr.Cap), "make cap")
		if n < 0 || c < n {
			m.rtPanic("makeslice: len out of range")
		}
		et := instr.Type().Underlying().(*types.Slice).Elem()
		fr.env[instr] = m.makeSlice(et, n, c)
	case *ssa.MakeMap:
		mt := instr.Type().Underlying().(*types.Map)
		fr.env[instr] = &mapV{kt: mt.Key(), vt: mt.Elem()}
	case *ssa.Range:
		fr.env[instr] = m.rangeIter(fr.get(instr.X))
	case *ssa.Next:
		fr.env[instr] = m.next(instr, fr.get(instr.Iter))
	case *ssa.FieldAddr:
		p := fr.get(instr.X).(*value)
		if p == nil {
			m.rtPanic("invalid memory address or nil pointer dereference")
		}
		s, ok := (*p).(structure)
		if !ok {
			m.unsupported("field access on opaque object %T at %s", *p, m.where())
		}
		fr.env[instr] = &s[instr.Field]
	case *ssa.Field:
		fr.env[instr] = fr.get(instr.X).(structure)[instr.Field]
	case *ssa.IndexAddr:
		fr.env[instr] = m.indexAddr(fr.get(instr.X), fr.get(instr.Index), instr.Index.Type())
	case *ssa.Index:
		fr.env[instr] = m.index(fr.get(instr.X), fr.get(instr.Index), instr.Index.Type())
	case *ssa.Lookup:
		fr.env[instr] = m.lookup(instr, fr.get(instr.X), fr.get(instr.Index))
	case *ssa.MapUpdate:
		m.mapUpdate(fr.get(instr.Map), fr.get(instr.Key), fr.get(instr.Value))
	case *ssa.TypeAssert:
		fr.env[instr] = m.typeAssert(instr, fr.get(instr.X).(iface))
	case *ssa.MakeClosure:
		var bindings []value
		for _, b := range instr.Bindings {
			bindings = append(bindings, fr.get(b))
		}
		fr.env[instr] = &closure{Fn: instr.Fn.(*ssa.Function), Env: bindings}
	case *ssa.Phi:
		for i, pred := range instr.Block().Preds {
			if fr.prevBlock == pred {
				fr.env[instr] = fr.get(instr.Edges[i])
				break
			}
		}
	case *ssa.Select:
		fr.env[instr] = m.selectInstr(fr, instr)
	default:
		panic(fmt.Sprintf("unexpected instruction: %T", instr))
	}
	return kNext
}

func (fr *frame) prepareCall(call *ssa.CallCommon) (fn value, args []value) {
	m := fr.m
	v := fr.get(call.Value)
	if call.Method == nil {
		fn = v
	} else {
		recv := v.(iface)
		if recv.t == nil {
			m.rtPanic("invalid memory address or nil pointer dereference (method call on nil interface)")
		}
		if recv.t == rtErrType {
			fn = &rtErrMethod{name: call.Method.Name()}
		} else if f := m.eng.lookupMethod(recv.t, call.Method); f != nil {
			fn = f
		} else {
			m.unsupported("method %s not found on %s", call.Method.Name(), recv.t)
		}
		args = append(args, recv.v)
	}
	for _, a := range call.Args {
		args = append(args, fr.get(a))
	}
	return
}

type rtErrMethod struct{ name string }

func (m *machine) callValue(caller *frame, fn value, args []value, site ssa.Instruction) value {
	switch fn := fn.(type) {
	case *ssa.Function:
		if fn == nil {
			m.rtPanic("call of nil function")
		}
		return m.callFn(caller, fn, args, nil)
	case *closure:
		return m.callFn(caller, fn.Fn, args, fn.Env)
	case *ssa.Builtin:
		return m.callBuiltin(caller, fn, args, site)
	case *rtErrMethod:
		if fn.name == "Error" {
			return *(args[0].(*value))
		}
		return nil
	case nil:
		m.rtPanic("call of nil function")
	}
	panic(fmt.Sprintf("cannot call %T", fn))
}

func (m *machine) callFn(caller *frame, fn *ssa.Function, args []value, env []value) value {
	name := fn.String()
	if h, ok := m.eng.intrinsics[name]; ok {
		return h(m, caller, fn, args)
	}
	if tgt, ok := m.eng.redirects[name]; ok {
		if _, real := m.side["real:"+name]; !real {
			return m.callFunction(caller, tgt, args, nil)
		}
	}
	if fn.Pkg != nil && fn.Name() == "init" && fn.Pkg != m.eng.mainPkg && fn.Signature.Recv() == nil {
		// package initialisers of dependencies are run lazily on first global access
		return nil
	}
	if pkg := fnPkgPath(fn); pkg != "" && m.eng.blockedPkg(pkg) && fn.Synthetic == "" {
		if _, real := m.side["realpkg:"+pkg]; real {
			// the harness asked for this package to be executed from its SSA
		} else if !m.eng.allowedFn[name] {
			m.unsupported("call into non-executed package: %s at %s", name, m.where())
		}
	}
	if fn.Blocks == nil {
		if h := m.nativeEval(fn, args); h != nil {
			return h
		}
		m.unsupported("external function %s at %s", name, m.where())
	}
	return m.callFunction(caller, fn, args, env)
}

func fnPkgPath(fn *ssa.Function) string {
	if fn.Pkg != nil {
		return fn.Pkg.Pkg.Path()
	}
	if o := fn.Object(); o != nil && o.Pkg() != nil {
		return o.Pkg().Path()
	}
	if fn.Parent() != nil {
		return fnPkgPath(fn.Parent())
	}
	if o := fn.Origin(); o != nil && o != fn {
		return fnPkgPath(o)
	}
	return ""
}

// ---------- run one path ----------

type pathResult struct {
	status    string
	detail    string
	m         *machine
	engineBug string
}

func (m *machine) runPath(entry *ssa.Function) (res pathResult) {
	res.m = m
	defer func() {
		r := recover()
		switch r := r.(type) {
		case nil:
			res.status = "done"
		case pathEnd:
			res.status = r.status
			res.detail = r.detail
		case *targetPanic:
			res.status = "panic"
			res.detail = m.panicString(r) + " @ " + r.site
		default:
			res.status = "enginebug"
			res.engineBug = fmt.Sprintf("%v\n at %s\n%s", r, m.where(), debug.Stack())
		}
	}()
	defer m.shutdownThreads()
	m.initMainGlobals()
	m.callFunction(nil, entry, nil, nil)
	if m.multi() {
		m.joinAll()
	}
	return
}

func (m *machine) panicString(tp *targetPanic) string {
	switch v := tp.v.(type) {
	case iface:
		switch x := v.v.(type) {
		case strV:
			if x.IsConcrete() {
				return x.s
			}
			return "<symbolic string>"
		case *value:
			// error value: try its message field (errors.errorString{s})
			if x != nil {
				if sv, ok := (*x).(strV); ok && sv.IsConcrete() {
					return sv.s
				}
				if s, ok := (*x).(structure); ok && len(s) > 0 {
					if sv, ok := s[0].(strV); ok && sv.IsConcrete() {
						return typeName(v.t) + ": " + sv.s
					}
				}
			}
			return typeName(v.t)
		}
		if v.t != nil {
			return "panic value of type " + typeName(v.t)
		}
		return "panic(nil)"
	}
	return fmt.Sprintf("%v", tp.v)
}

func instrStr(i ssa.Instruction) string {
	if v, ok := i.(ssa.Value); ok {
		return v.Name() + " = " + i.String()
	}
	return i.String()
}

func valStr(v value) string {
	switch v := v.(type) {
	case *Term:
		return v.String()
	case strV:
		if v.IsConcrete() {
			return fmt.Sprintf("%q", v.s)
		}
		return fmt.Sprintf("str[%d]", v.Len())
	case []value:
		s := fmt.Sprintf("slice[%d/%d]{", len(v), cap(v))
		for i, e := range v {
			if i > 8 {
				s += "…"
				break
			}
			s += valStr(e) + " "
		}
		return s + "}"
	case structure:
		s := "struct{"
		for _, e := range v {
			s += valStr(e) + "; "
		}
		return s + "}"
	case array:
		return "arr" + valStr([]value(v))
	case *value:
		if v == nil {
			return "nilptr"
		}
		return fmt.Sprintf("&%p", v)
	case tuple:
		return "tuple" + valStr([]value(v))
	case iface:
		if v.t == nil {
			return "nil-iface"
		}
		return "iface(" + typeName(v.t) + ")"
	}
	return fmt.Sprintf("%T", v)
}

func truncStr(s string, n int) string {
	if len(s) > n {
		return s[:n] + "…"
	}
	return s
}

func (m *machine) chk(extra *Term) SatResult {
	if slowLog != nil {
		m.solver.where = m.where()
		if extra != nil {
			m.solver.where += " :: " + truncStr(extra.String(), 300)
		}
	}
	return m.solver.Check(m.pc, extra)
}

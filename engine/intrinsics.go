package main

// Intercepted callees: harness intrinsics (vf*), environment models
// (sync, time, a few strings/bytes/strconv helpers) and native evaluation of
// pure standard-library functions on concrete arguments.

import (
	"crypto/sha1"
	"fmt"
	"go/types"
	"net"
	"net/http"
	"net/textproto"
	"strconv"
	"strings"

	"golang.org/x/tools/go/ssa"
)

type intrinsic func(m *machine, caller *frame, fn *ssa.Function, args []value) value

const hp = "github.com/gorilla/websocket."

func (m *machine) violate(kind, id, detail string) {
	v := &violationRec{Kind: kind, ID: id, Detail: detail}
	// obtain a model of the current path condition (plus whatever frame the
	// last Sat check left on the solver stack)
	if m.chk(nil) == Sat {
		var ts []*Term
		for _, n := range m.nondets {
			ts = append(ts, n.Term)
		}
		if vals, err := m.solver.Values(ts); err == nil {
			v.Model = make(map[string]uint64)
			for _, n := range m.nondets {
				v.Model[n.Name] = vals[n.Term]
			}
		} else {
			m.note("model extraction failed: " + err.Error())
		}
	}
	m.violation = v
	m.end("violation", kind+":"+id+": "+detail)
}

func concStr(m *machine, v value, what string) string {
	s := v.(strV)
	if !s.IsConcrete() {
		m.unsupported("%s must be a concrete string at %s", what, m.where())
	}
	return s.s
}

func (m *machine) bytesToValues(bs []*Term) []value {
	out := make([]value, len(bs))
	for i, b := range bs {
		out[i] = b
	}
	m.registerArray(out, nil)
	return out
}

func (m *machine) sliceTerms(v value) []*Term {
	s := v.([]value)
	out := make([]*Term, len(s))
	for i, e := range s {
		out[i] = e.(*Term)
	}
	return out
}

func (m *machine) strOrBytes(v value) []*Term {
	switch x := v.(type) {
	case strV:
		return m.strBytes(x)
	case []value:
		return m.sliceTerms(x)
	}
	panic("strOrBytes")
}

func (e *Engine) installIntrinsics() {
	in := e.intrinsics
	mkNondet := func(kind string, w int) intrinsic {
		return func(m *machine, _ *frame, _ *ssa.Function, _ []value) value {
			return m.newVar(kind, w)
		}
	}
	in[hp+"vfByte"] = mkNondet("byte", 8)
	in[hp+"vfU16"] = mkNondet("u16", 16)
	in[hp+"vfU32"] = mkNondet("u32", 32)
	in[hp+"vfI64"] = mkNondet("i64", 64)
	in[hp+"vfU64"] = mkNondet("u64", 64)
	in[hp+"vfInt"] = mkNondet("i64", 64)
	in[hp+"vfBool"] = func(m *machine, _ *frame, _ *ssa.Function, _ []value) value {
		return m.newVar("bool", 0)
	}
	in[hp+"vfBytes"] = func(m *machine, _ *frame, _ *ssa.Function, args []value) value {
		n := m.concInt(args[0], "vfBytes n")
		out := make([]value, n)
		for i := range out {
			out[i] = m.newVar("byte", 8)
		}
		m.registerArray(out, nil)
		return out
	}
	// vfAlignedBytes(n, r): n fresh bytes in a buffer whose address is r mod 8
	in[hp+"vfAlignedBytes"] = func(m *machine, _ *frame, _ *ssa.Function, args []value) value {
		n := m.concInt(args[0], "vfAlignedBytes n")
		r := args[1].(*Term)
		out := make([]value, n)
		for i := range out {
			out[i] = m.newVar("byte", 8)
		}
		base := m.ctx.Add(m.ctx.BV(uint64(len(m.arrays)+1)<<20, 64), m.ctx.BAnd(r, m.ctx.BV(7, 64)))
		m.registerArray(out, base)
		return out
	}
	in[hp+"vfString"] = func(m *machine, _ *frame, _ *ssa.Function, args []value) value {
		n := m.concInt(args[0], "vfString n")
		bs := make([]*Term, n)
		for i := range bs {
			bs[i] = m.newVar("byte", 8)
		}
		return mkStr(bs)
	}
	in[hp+"vfChoose"] = func(m *machine, _ *frame, _ *ssa.Function, args []value) value {
		n := m.concInt(args[0], "vfChoose n")
		if n <= 0 {
			m.end("assume", "Choose(0)")
		}
		return m.ctx.BV(uint64(m.chooseN(n, "Choose")), 64)
	}
	in[hp+"vfAssume"] = func(m *machine, _ *frame, _ *ssa.Function, args []value) value {
		c := args[0].(*Term)
		if c.IsConst() {
			if c.cval == 0 {
				m.end("assume", "")
			}
			return nil
		}
		if m.model != nil && m.evalModel(c) != 0 {
			m.addPC(c)
			return nil
		}
		switch m.chk(c) {
		case Unsat:
			m.end("assume", "")
		case Sat:
			m.fetchModel()
		default:
			m.model = nil
		}
		m.addPC(c)
		return nil
	}
	in[hp+"vfAssert"] = func(m *machine, _ *frame, _ *ssa.Function, args []value) value {
		c := args[0].(*Term)
		id := concStr(m, args[1], "assert id")
		m.assert(c, id)
		return nil
	}
	in[hp+"vfReach"] = func(m *machine, _ *frame, _ *ssa.Function, args []value) value {
		id := concStr(m, args[0], "witness id")
		m.witnesses = append(m.witnesses, id)
		if m.eng.params["twin"] == 1 {
			// vacuity twin: reaching the end of the harness must be reported
			m.violate("assert", "twin-"+id, "vacuity twin reached "+id)
		}
		return nil
	}
	in[hp+"vfAllocBound"] = func(m *machine, _ *frame, _ *ssa.Function, args []value) value {
		m.allocMax = int64(m.concInt(args[0], "AllocBound"))
		return nil
	}
	in[hp+"vfParam"] = func(m *machine, _ *frame, _ *ssa.Function, args []value) value {
		name := concStr(m, args[0], "param name")
		def := m.concInt(args[1], "param default")
		if v, ok := m.eng.params[name]; ok {
			return m.ctx.BV(uint64(v), 64)
		}
		return m.ctx.BV(uint64(def), 64)
	}
	in[hp+"vfSymbolic"] = func(m *machine, _ *frame, _ *ssa.Function, _ []value) value {
		return m.ctx.True
	}
	// vfAllEq(a, b []byte) bool: conjunction of byte equalities without forking
	in[hp+"vfAllEq"] = func(m *machine, _ *frame, _ *ssa.Function, args []value) value {
		a, b := m.strOrBytes(args[0]), m.strOrBytes(args[1])
		if len(a) != len(b) {
			return m.ctx.False
		}
		r := m.ctx.True
		for i := range a {
			if !a[i].IsConst() || !b[i].IsConst() {
				m.symOperands = true // the comparison ranges over symbolic bytes
			}
			r = m.ctx.And(r, m.ctx.Eq(a[i], b[i]))
		}
		return r
	}
	in[hp+"vfStrEq"] = in[hp+"vfAllEq"]
	// vfIte(c, a, b int) int
	in[hp+"vfIte"] = func(m *machine, _ *frame, _ *ssa.Function, args []value) value {
		return m.ctx.Ite(args[0].(*Term), args[1].(*Term), args[2].(*Term))
	}
	in[hp+"vfAnd"] = func(m *machine, _ *frame, _ *ssa.Function, args []value) value {
		return m.ctx.And(args[0].(*Term), args[1].(*Term))
	}
	in[hp+"vfOr"] = func(m *machine, _ *frame, _ *ssa.Function, args []value) value {
		return m.ctx.Or(args[0].(*Term), args[1].(*Term))
	}
	in[hp+"vfImplies"] = func(m *machine, _ *frame, _ *ssa.Function, args []value) value {
		return m.ctx.Implies(args[0].(*Term), args[1].(*Term))
	}
	// vfConcretize(x int) int: fork over the feasible values of x
	in[hp+"vfConcretize"] = func(m *machine, _ *frame, _ *ssa.Function, args []value) value {
		t := args[0].(*Term)
		return m.ctx.BV(m.concretize(t, "vfConcretize"), t.Width())
	}
	in[hp+"vfNote"] = func(m *machine, _ *frame, _ *ssa.Function, args []value) value {
		return nil
	}
	// vfUF(tag, in, n): uninterpreted function from byte strings to n bytes
	in[hp+"vfUF"] = func(m *machine, _ *frame, _ *ssa.Function, args []value) value {
		tag := concStr(m, args[0], "uf tag")
		inb := m.strOrBytes(args[1])
		n := m.concInt(args[2], "uf out len")
		return m.bytesToValues(m.uf(tag, inb, n))
	}
	// vfTime(): an arbitrary time.Time (possibly the zero Time)
	in[hp+"vfTime"] = func(m *machine, _ *frame, _ *ssa.Function, _ []value) value {
		t := m.newVar("i64", 64)
		// 0 (zero time) or a sane instant
		m.addPC(m.ctx.And(m.ctx.SLe(m.ctx.BV(0, 64), t), m.ctx.SLt(t, m.ctx.BV(1<<61, 64))))
		return m.mkTime(t)
	}
	in[hp+"vfTimeInstant"] = func(m *machine, _ *frame, _ *ssa.Function, args []value) value {
		return m.timeInstant(args[0])
	}
	// vfClockMaxStep(ns): assume that at most ns nanoseconds pass between two
	// consecutive clock readings (stated as an assumption by the harness)
	in[hp+"vfClockMaxStep"] = func(m *machine, _ *frame, _ *ssa.Function, args []value) value {
		m.side["clockstep"] = args[0].(*Term)
		return nil
	}
	// vfUnwind(n): every loop head on this path may be visited at most n times
	// per call frame; exceeding it is reported (used as the "hang" detector)
	in[hp+"vfUnwind"] = func(m *machine, _ *frame, _ *ssa.Function, args []value) value {
		m.unwind = m.concInt(args[0], "vfUnwind")
		return nil
	}
	// threads
	in[hp+"vfGo"] = func(m *machine, caller *frame, _ *ssa.Function, args []value) value {
		m.spawn(caller, args[0], nil, nil)
		return nil
	}
	in[hp+"vfYield"] = func(m *machine, _ *frame, _ *ssa.Function, args []value) value {
		m.visibleOp("yield")
		return nil
	}
	in[hp+"vfJoin"] = func(m *machine, _ *frame, _ *ssa.Function, args []value) value {
		m.joinAll()
		return nil
	}
	// vfTimersFire(b): whether timers armed by the library may expire on this path
	in[hp+"vfTimersFire"] = func(m *machine, _ *frame, _ *ssa.Function, args []value) value {
		if args[0].(*Term) == m.ctx.False {
			m.side["timers-off"] = true
		} else {
			delete(m.side, "timers-off")
		}
		return nil
	}
	// vfSchedBound(n): preemption bound for goroutines started on this path
	in[hp+"vfSchedBound"] = func(m *machine, _ *frame, _ *ssa.Function, args []value) value {
		m.ts().maxPreempt = m.concInt(args[0], "vfSchedBound n")
		return nil
	}
	// vfUseReal(callee): execute the real callee (from SSA) instead of its model on this path;
	// vfUseRealPkg(path): execute a normally non-executed package from its SSA
	in[hp+"vfUseReal"] = func(m *machine, _ *frame, _ *ssa.Function, args []value) value {
		m.side["real:"+concStr(m, args[0], "callee")] = true
		return nil
	}
	in[hp+"vfUseRealPkg"] = func(m *machine, _ *frame, _ *ssa.Function, args []value) value {
		m.side["realpkg:"+concStr(m, args[0], "package")] = true
		return nil
	}
	in[hp+"vfHeldBy"] = func(m *machine, _ *frame, _ *ssa.Function, args []value) value {
		return nil
	}

	// ---- sync ----
	in["(*sync.Mutex).Lock"] = func(m *machine, _ *frame, _ *ssa.Function, args []value) value {
		p := args[0].(*value)
		for m.mutexes[p] {
			if !m.blockOn("mutex", func() bool { return !m.mutexes[p] }) {
				m.end("deadlock", "sync.Mutex.Lock on a mutex that is never released at "+m.where())
			}
		}
		m.mutexes[p] = true
		m.hbAcquire(p)
		return nil
	}
	in["(*sync.Mutex).Unlock"] = func(m *machine, _ *frame, _ *ssa.Function, args []value) value {
		p := args[0].(*value)
		if !m.mutexes[p] {
			panic(&targetPanic{v: m.rtErr("sync: unlock of unlocked mutex"), site: m.where()})
		}
		m.hbRelease(p)
		delete(m.mutexes, p)
		return nil
	}
	in["(*sync.Once).Do"] = func(m *machine, caller *frame, _ *ssa.Function, args []value) value {
		p := args[0].(*value)
		for m.onceState[p] == 1 {
			// another goroutine is inside f: Do returns only after f has returned
			if !m.blockOn("once", func() bool { return m.onceState[p] != 1 }) {
				m.end("deadlock", "sync.Once.Do never completes at "+m.where())
			}
		}
		if m.onceState[p] == 2 {
			m.hbAcquire(p)
			return nil
		}
		m.onceState[p] = 1
		m.callValue(caller, args[1], nil, nil)
		m.onceState[p] = 2
		m.hbRelease(p)
		return nil
	}
	in["(*sync.Pool).Get"] = func(m *machine, caller *frame, _ *ssa.Function, args []value) value {
		p := args[0].(*value)
		if l := m.pools[p]; len(l) > 0 {
			v := l[len(l)-1]
			m.pools[p] = l[:len(l)-1]
			m.hbAcquire(p)
			return v
		}
		// field New is the last field of sync.Pool
		s := (*p).(structure)
		newFn := s[len(s)-1]
		if newFn != nil {
			return m.callValue(caller, newFn, nil, nil)
		}
		return iface{}
	}
	in["(*sync.Pool).Put"] = func(m *machine, _ *frame, _ *ssa.Function, args []value) value {
		p := args[0].(*value)
		if iv, ok := args[1].(iface); ok && iv.t == nil {
			return nil
		}
		m.pools[p] = append(m.pools[p], args[1])
		m.hbRelease(p)
		return nil
	}

	// ---- time (clock model: Time{wall:0, ext:instant, loc:nil}) ----
	in["time.Now"] = func(m *machine, _ *frame, _ *ssa.Function, _ []value) value {
		var t *Term
		if m.now == nil {
			t = m.newVarHidden("clock", 64)
			m.addPC(m.ctx.And(m.ctx.SLe(m.ctx.BV(1<<40, 64), t), m.ctx.SLt(t, m.ctx.BV(1<<59, 64))))
		} else {
			// monotone clock: previous reading plus an arbitrary non-negative step
			d := m.newVarHidden("clockstep", 64)
			max := m.ctx.BV(1<<40, 64)
			if st, ok := m.side["clockstep"]; ok {
				max = st.(*Term)
			}
			// strictly increasing: two clock readings never coincide (nanosecond
			// resolution; coincidences would only produce witnesses no native run repeats)
			m.addPC(m.ctx.And(m.ctx.SLe(m.ctx.BV(1, 64), d), m.ctx.SLe(d, max)))
			t = m.ctx.Add(m.now, d)
		}
		m.now = t
		return m.mkTime(t)
	}
	in["(time.Time).IsZero"] = func(m *machine, _ *frame, _ *ssa.Function, args []value) value {
		return m.ctx.Eq(m.timeInstant(args[0]), m.ctx.BV(0, 64))
	}
	in["(time.Time).Add"] = func(m *machine, _ *frame, _ *ssa.Function, args []value) value {
		return m.mkTime(m.ctx.Add(m.timeInstant(args[0]), args[1].(*Term)))
	}
	in["(time.Time).Sub"] = func(m *machine, _ *frame, _ *ssa.Function, args []value) value {
		return m.ctx.Sub(m.timeInstant(args[0]), m.timeInstant(args[1]))
	}
	in["(time.Time).Before"] = func(m *machine, _ *frame, _ *ssa.Function, args []value) value {
		return m.ctx.SLt(m.timeInstant(args[0]), m.timeInstant(args[1]))
	}
	in["(time.Time).After"] = func(m *machine, _ *frame, _ *ssa.Function, args []value) value {
		return m.ctx.SLt(m.timeInstant(args[1]), m.timeInstant(args[0]))
	}
	in["(time.Time).Equal"] = func(m *machine, _ *frame, _ *ssa.Function, args []value) value {
		return m.ctx.Eq(m.timeInstant(args[0]), m.timeInstant(args[1]))
	}
	in["time.Until"] = func(m *machine, caller *frame, fn *ssa.Function, args []value) value {
		now := in["time.Now"](m, caller, fn, nil)
		return m.ctx.Sub(m.timeInstant(args[0]), m.timeInstant(now))
	}
	in["time.Since"] = func(m *machine, caller *frame, fn *ssa.Function, args []value) value {
		now := in["time.Now"](m, caller, fn, nil)
		return m.ctx.Sub(m.timeInstant(now), m.timeInstant(args[0]))
	}
	in["time.NewTimer"] = func(m *machine, _ *frame, fn *ssa.Function, args []value) value {
		tt := fn.Signature.Results().At(0).Type().(*types.Pointer).Elem()
		cell := new(value)
		*cell = m.zero(tt)
		s := (*cell).(structure)
		s[0] = &chanV{cap: 1, timer: true}
		// remember when the timer armed last by this goroutine expires on the model
		// clock (vfTimerBy): arming instant = the latest clock reading
		if m.now == nil {
			in["time.Now"](m, nil, fn, nil)
		}
		tid := 0
		if m.thr != nil && m.thr.cur != nil {
			tid = m.thr.cur.id
		}
		m.side[fmt.Sprintf("timerexp:%d", tid)] = m.ctx.Add(m.now, args[0].(*Term))
		return cell
	}
	// vfTimerBy(deadline): the timer this goroutine armed last (if any since the
	// previous call) expires no later than deadline on the model clock
	in[hp+"vfTimerBy"] = func(m *machine, _ *frame, _ *ssa.Function, args []value) value {
		tid := 0
		if m.thr != nil && m.thr.cur != nil {
			tid = m.thr.cur.id
		}
		key := fmt.Sprintf("timerexp:%d", tid)
		exp, ok := m.side[key]
		if !ok {
			return m.ctx.True
		}
		delete(m.side, key)
		return m.ctx.SLe(exp.(*Term), m.timeInstant(args[0]))
	}
	in["(*time.Timer).Stop"] = func(m *machine, _ *frame, _ *ssa.Function, args []value) value {
		p := args[0].(*value)
		s := (*p).(structure)
		ch := s[0].(*chanV)
		ch.timer = false
		return m.ctx.Bool(!ch.fired)
	}

	// ---- strings / bytes helpers with assembly or unsafe bodies ----
	in["strings.Join"] = func(m *machine, _ *frame, _ *ssa.Function, args []value) value {
		elems := args[0].([]value)
		sep := m.strBytes(args[1].(strV))
		var out []*Term
		for i, e := range elems {
			if i > 0 {
				out = append(out, sep...)
			}
			out = append(out, m.strBytes(e.(strV))...)
		}
		return mkStr(out)
	}
	in["strings.IndexByte"] = func(m *machine, _ *frame, _ *ssa.Function, args []value) value {
		return m.ctx.BV(uint64(int64(m.indexByte(m.strBytes(args[0].(strV)), args[1].(*Term)))), 64)
	}
	in["internal/bytealg.IndexByteString"] = in["strings.IndexByte"]
	in["internal/stringslite.IndexByte"] = in["strings.IndexByte"]
	in["bytes.IndexByte"] = func(m *machine, _ *frame, _ *ssa.Function, args []value) value {
		return m.ctx.BV(uint64(int64(m.indexByte(m.sliceTerms(args[0]), args[1].(*Term)))), 64)
	}
	in["internal/bytealg.IndexByte"] = in["bytes.IndexByte"]
	in["strings.Index"] = func(m *machine, _ *frame, _ *ssa.Function, args []value) value {
		return m.ctx.BV(uint64(int64(m.indexSub(m.strBytes(args[0].(strV)), m.strBytes(args[1].(strV)), false))), 64)
	}
	in["internal/stringslite.Index"] = in["strings.Index"]
	in["strings.LastIndex"] = func(m *machine, _ *frame, _ *ssa.Function, args []value) value {
		return m.ctx.BV(uint64(int64(m.indexSub(m.strBytes(args[0].(strV)), m.strBytes(args[1].(strV)), true))), 64)
	}
	in["strings.Contains"] = func(m *machine, _ *frame, _ *ssa.Function, args []value) value {
		return m.ctx.Bool(m.indexSub(m.strBytes(args[0].(strV)), m.strBytes(args[1].(strV)), false) >= 0)
	}
	in["strings.TrimSpace"] = func(m *machine, _ *frame, _ *ssa.Function, args []value) value {
		s := args[0].(strV)
		lo, hi := 0, s.Len()
		isSp := func(b *Term) *Term {
			c := m.ctx
			r := c.Eq(b, c.BV(' ', 8))
			for _, ch := range []byte{'\t', '\n', '\v', '\f', '\r'} {
				r = c.Or(r, c.Eq(b, c.BV(uint64(ch), 8)))
			}
			return r
		}
		// Unicode spaces outside ASCII start with one of these lead bytes
		// (U+0085, U+00A0: C2; U+1680: E1; U+2000-U+205F: E2; U+3000: E3)
		mayLead := func(b *Term) *Term {
			c := m.ctx
			r := c.Eq(b, c.BV(0xc2, 8))
			for _, ch := range []byte{0xe1, 0xe2, 0xe3} {
				r = c.Or(r, c.Eq(b, c.BV(uint64(ch), 8)))
			}
			return r
		}
		for lo < hi {
			b := m.strAt(s, lo)
			if !m.decide(m.ctx.ULt(b, m.ctx.BV(0x80, 8))) {
				if m.decide(mayLead(b)) {
					m.unsupported("strings.TrimSpace: possible non-ASCII Unicode space at %s", m.where())
				}
				break // a non-ASCII rune that is not a space (or an invalid byte)
			}
			if !m.decide(isSp(b)) {
				break
			}
			lo++
		}
		for hi > lo {
			b := m.strAt(s, hi-1)
			if !m.decide(m.ctx.ULt(b, m.ctx.BV(0x80, 8))) {
				// the last rune is non-ASCII: a space only if a lead byte C2/E1/E2/E3
				// sits within the previous two bytes
				poss := m.ctx.False
				for k := 2; k <= 3; k++ {
					if hi-k >= lo {
						poss = m.ctx.Or(poss, mayLead(m.strAt(s, hi-k)))
					}
				}
				if m.decide(poss) {
					m.unsupported("strings.TrimSpace: possible non-ASCII Unicode space at %s", m.where())
				}
				break
			}
			if !m.decide(isSp(b)) {
				break
			}
			hi--
		}
		return s.slice(lo, hi)
	}
	in["strings.Split"] = func(m *machine, _ *frame, _ *ssa.Function, args []value) value {
		return m.split(args[0].(strV), args[1].(strV), -1)
	}
	in["strings.SplitN"] = func(m *machine, _ *frame, _ *ssa.Function, args []value) value {
		return m.split(args[0].(strV), args[1].(strV), m.concInt(args[2], "SplitN n"))
	}
	in["bytes.Equal"] = func(m *machine, _ *frame, _ *ssa.Function, args []value) value {
		a, b := m.sliceTerms(args[0]), m.sliceTerms(args[1])
		if len(a) != len(b) {
			return m.ctx.False
		}
		r := m.ctx.True
		for i := range a {
			r = m.ctx.And(r, m.ctx.Eq(a[i], b[i]))
		}
		return r
	}
	in["strconv.Itoa"] = func(m *machine, caller *frame, fn *ssa.Function, args []value) value {
		t := args[0].(*Term)
		if t.IsConst() {
			return strV{s: strconv.Itoa(int(t.SConst()))}
		}
		return m.itoaSym(t)
	}
	in["fmt.Errorf"] = func(m *machine, _ *frame, fn *ssa.Function, args []value) value {
		// opaque error value carrying the format string
		cell := new(value)
		*cell = args[0]
		return iface{t: rtErrType, v: cell}
	}
	in["fmt.Sprintf"] = func(m *machine, _ *frame, fn *ssa.Function, args []value) value {
		return args[0]
	}
	in["fmt.Sprint"] = func(m *machine, _ *frame, fn *ssa.Function, args []value) value {
		return strV{s: "<fmt.Sprint>"}
	}
	// strings.EqualFold: Unicode simple folding restricted to ASCII letters and the
	// two non-ASCII code points that fold to ASCII letters (U+212A KELVIN SIGN ~ k,
	// U+017F LONG S ~ s); any other non-ASCII rune is outside the model.
	in["strings.EqualFold"] = func(m *machine, _ *frame, _ *ssa.Function, args []value) value {
		a, b := args[0].(strV), args[1].(strV)
		if a.IsConcrete() && b.IsConcrete() {
			return m.ctx.Bool(strings.EqualFold(a.s, b.s))
		}
		ra, oka := m.foldRunes(a)
		rb, okb := m.foldRunes(b)
		if !oka || !okb {
			m.unsupported("strings.EqualFold on non-ASCII input outside the model at %s", m.where())
		}
		if len(ra) != len(rb) {
			return m.ctx.False
		}
		r := m.ctx.True
		for i := range ra {
			r = m.ctx.And(r, m.ctx.Eq(ra[i], rb[i]))
		}
		return r
	}
	in["net.SplitHostPort"] = func(m *machine, _ *frame, fn *ssa.Function, args []value) value {
		s := args[0].(strV)
		if !s.IsConcrete() {
			m.unsupported("net.SplitHostPort on a symbolic string at %s", m.where())
		}
		h, p, err := net.SplitHostPort(s.s)
		var ev value = iface{}
		if err != nil {
			ev = m.rtErr(err.Error())
		}
		return tuple{strV{s: h}, strV{s: p}, ev}
	}
	in["net.JoinHostPort"] = func(m *machine, _ *frame, fn *ssa.Function, args []value) value {
		h, p := args[0].(strV), args[1].(strV)
		if !h.IsConcrete() || !p.IsConcrete() {
			m.unsupported("net.JoinHostPort on a symbolic string at %s", m.where())
		}
		return strV{s: net.JoinHostPort(h.s, p.s)}
	}
	in["net.ParseIP"] = func(m *machine, _ *frame, fn *ssa.Function, args []value) value {
		s := args[0].(strV)
		if !s.IsConcrete() {
			m.unsupported("net.ParseIP on a symbolic string at %s", m.where())
		}
		ip := net.ParseIP(s.s)
		if ip == nil {
			return []value(nil)
		}
		out := make([]value, len(ip))
		for i, b := range ip {
			out[i] = m.ctx.BV(uint64(b), 8)
		}
		m.registerArray(out, nil)
		return out
	}
	in["strconv.Atoi"] = func(m *machine, _ *frame, fn *ssa.Function, args []value) value {
		s := args[0].(strV)
		if !s.IsConcrete() {
			m.unsupported("strconv.Atoi on a symbolic string at %s", m.where())
		}
		n, err := strconv.Atoi(s.s)
		var ev value = iface{}
		if err != nil {
			ev = m.rtErr(err.Error())
		}
		return tuple{m.ctx.BV(uint64(int64(n)), 64), ev}
	}
	in["internal/abi.NoEscape"] = func(m *machine, _ *frame, fn *ssa.Function, args []value) value {
		return args[0]
	}
	in["internal/bytealg.CountString"] = func(m *machine, _ *frame, fn *ssa.Function, args []value) value {
		bs := m.strBytes(args[0].(strV))
		c := args[1].(*Term)
		n := m.ctx.BV(0, 64)
		for _, b := range bs {
			n = m.ctx.Add(n, m.ctx.Ite(m.ctx.Eq(b, c), m.ctx.BV(1, 64), m.ctx.BV(0, 64)))
		}
		return n
	}
	in["internal/bytealg.MakeNoZero"] = func(m *machine, _ *frame, fn *ssa.Function, args []value) value {
		n := m.allocSize(args[0], "bytealg.MakeNoZero")
		out := make([]value, n)
		for i := range out {
			out[i] = m.ctx.BV(0, 8)
		}
		m.registerArray(out, nil)
		return out
	}
	in["os.Getenv"] = func(m *machine, _ *frame, fn *ssa.Function, args []value) value {
		return strV{}
	}
	in["runtime.Gosched"] = func(m *machine, _ *frame, fn *ssa.Function, args []value) value {
		m.visibleOp("gosched")
		return nil
	}
}

func (m *machine) assert(c *Term, id string) {
	if m.eng.concrete != nil {
		if v, ok := c.Const(); ok {
			m.digest = append(m.digest, fmt.Sprintf("%s=%v", id, v != 0))
		} else {
			m.digest = append(m.digest, id+"=SYMBOLIC")
		}
	}
	rec := assertRec{ID: id, PCSize: len(m.pc)}
	if c.IsConst() {
		rec.Trivial = true
		if c.cval != 0 {
			rec.Result = "trivially-true"
			if m.symOperands {
				// decided for all values of symbolic operands by the sound normaliser
				rec.Result = "normalised-true"
				m.symOperands = false
			}
			m.asserts = append(m.asserts, rec)
			return
		}
		rec.Result = "trivially-false"
		m.asserts = append(m.asserts, rec)
		m.violate("assert", id, "assertion is constant false at "+m.where())
	}
	r := m.chk(m.ctx.Not(c))
	switch r {
	case Unsat:
		rec.Result = "discharged"
		m.asserts = append(m.asserts, rec)
		// the assertion holds on this path: no need to add it to the pc
		return
	case Sat:
		rec.Result = "violated"
		m.asserts = append(m.asserts, rec)
		m.pc = append(m.pc, m.ctx.Not(c))
		m.violate("assert", id, "assertion can fail at "+m.where())
	default:
		rec.Result = "unknown"
		m.asserts = append(m.asserts, rec)
		m.unknowns++
		m.end("unknown", "assert "+id+": solver returned unknown ("+m.solver.lastErr+")")
	}
}

func (m *machine) mkTime(inst *Term) value {
	return structure{m.ctx.BV(0, 64), inst, (*value)(nil)}
}

func (m *machine) timeInstant(v value) *Term {
	s := v.(structure)
	return s[1].(*Term)
}

// foldRunes decodes s into case-folded runes (as 32-bit terms), forking on the
// lead-byte class of symbolic bytes; ok is false for non-ASCII runes other
// than U+212A and U+017F.
func (m *machine) foldRunes(s strV) ([]*Term, bool) {
	c := m.ctx
	bs := m.strBytes(s)
	var out []*Term
	for i := 0; i < len(bs); {
		b := bs[i]
		if m.decide(c.ULt(b, c.BV(0x80, 8))) {
			up := c.And(c.ULe(c.BV('A', 8), b), c.ULe(b, c.BV('Z', 8)))
			f := c.Ite(up, c.Add(b, c.BV(32, 8)), b)
			out = append(out, c.ZExt(f, 32))
			i++
			continue
		}
		if i+2 < len(bs) && m.decide(c.And(c.Eq(b, c.BV(0xe2, 8)), c.And(c.Eq(bs[i+1], c.BV(0x84, 8)), c.Eq(bs[i+2], c.BV(0xaa, 8))))) {
			out = append(out, c.BV('k', 32)) // U+212A folds with K and k
			i += 3
			continue
		}
		if i+1 < len(bs) && m.decide(c.And(c.Eq(b, c.BV(0xc5, 8)), c.Eq(bs[i+1], c.BV(0xbf, 8)))) {
			out = append(out, c.BV('s', 32)) // U+017F folds with S and s
			i += 2
			continue
		}
		return nil, false
	}
	return out, true
}

type ufCall struct {
	in  []*Term
	out []*Term
}

func (m *machine) uf(tag string, in []*Term, n int) []*Term {
	key := "uf:" + tag
	if tag == "sha1" && n == 20 {
		// on concrete input the function itself is evaluated
		conc := make([]byte, len(in))
		all := true
		for i, t := range in {
			v, ok := t.Const()
			if !ok {
				all = false
				break
			}
			conc[i] = byte(v)
		}
		if all {
			sum := sha1.Sum(conc)
			out := make([]*Term, 20)
			for i := range out {
				out[i] = m.ctx.BV(uint64(sum[i]), 8)
			}
			return out
		}
	}
	var calls []ufCall
	if v, ok := m.side[key]; ok {
		calls = v.([]ufCall)
	}
	for _, c := range calls {
		if len(c.in) == len(in) && len(c.out) == n {
			same := true
			for i := range in {
				if c.in[i] != in[i] {
					same = false
					break
				}
			}
			if same {
				return c.out
			}
		}
	}
	out := make([]*Term, n)
	for i := range out {
		out[i] = m.newVarHidden("uf_"+tag, 8)
	}
	// congruence (and injectivity, stated as an assumption: collision freedom)
	for _, c := range calls {
		if len(c.out) != n {
			continue
		}
		eqOut := m.ctx.True
		for i := range out {
			eqOut = m.ctx.And(eqOut, m.ctx.Eq(out[i], c.out[i]))
		}
		if len(c.in) == len(in) {
			eqIn := m.ctx.True
			for i := range in {
				eqIn = m.ctx.And(eqIn, m.ctx.Eq(in[i], c.in[i]))
			}
			m.addPC(m.ctx.Eq(eqIn, eqOut))
		} else {
			m.addPC(m.ctx.Not(eqOut))
		}
	}
	calls = append(calls, ufCall{in: in, out: out})
	m.side[key] = calls
	return out
}

// newVarHidden creates a fresh variable that is not a harness nondet (not
// part of the replay witness).
func (m *machine) newVarHidden(kind string, w int) *Term {
	if m.eng.concrete != nil {
		switch kind {
		case "clock":
			return m.ctx.BV(1<<41, w)
		case "clockstep":
			return m.ctx.BV(uint64(m.eng.concreteChoice(1000)), w)
		}
		return m.ctx.BV(m.eng.concreteValue("byte", w), w)
	}
	m.w.hidden++
	t := m.ctx.Var(fmt.Sprintf("h%d_%d_%s", len(m.nondets), m.w.hidden, kind), w)
	m.hiddenVars = append(m.hiddenVars, t)
	return t
}

func (m *machine) indexByte(s []*Term, b *Term) int {
	for i, x := range s {
		if m.decide(m.ctx.Eq(x, b)) {
			return i
		}
	}
	return -1
}

func (m *machine) indexSub(s, sub []*Term, last bool) int {
	n := len(sub)
	match := func(i int) bool {
		r := m.ctx.True
		for j := 0; j < n; j++ {
			r = m.ctx.And(r, m.ctx.Eq(s[i+j], sub[j]))
		}
		return m.decide(r)
	}
	if last {
		for i := len(s) - n; i >= 0; i-- {
			if match(i) {
				return i
			}
		}
		return -1
	}
	for i := 0; i+n <= len(s); i++ {
		if match(i) {
			return i
		}
	}
	return -1
}

func (m *machine) split(s, sep strV, n int) value {
	if sep.Len() == 0 {
		m.unsupported("strings.Split with empty separator")
	}
	if n == 0 {
		return []value(nil)
	}
	sb, pb := m.strBytes(s), m.strBytes(sep)
	var out []value
	start := 0
	i := 0
	for i+len(pb) <= len(sb) {
		if n > 0 && len(out) == n-1 {
			break
		}
		r := m.ctx.True
		for j := range pb {
			r = m.ctx.And(r, m.ctx.Eq(sb[i+j], pb[j]))
		}
		if m.decide(r) {
			out = append(out, mkStr(sb[start:i]))
			i += len(pb)
			start = i
		} else {
			i++
		}
	}
	out = append(out, mkStr(sb[start:]))
	return out
}

// itoaSym renders a symbolic int: forks on sign and digit count; digits are
// exact (udiv/urem by constants on a narrowed width when the range allows).
func (m *machine) itoaSym(t *Term) value {
	c := m.ctx
	w := t.Width()
	neg := m.decide(c.SLt(t, c.BV(0, w)))
	x := t
	if neg {
		x = c.Neg(t)
	}
	// digit count
	nd := 1
	lim := uint64(10)
	for nd < 19 {
		if m.decide(c.ULt(x, c.BV(lim, w))) {
			break
		}
		nd++
		lim *= 10
	}
	digits := make([]*Term, nd)
	// narrow when few digits
	nw := w
	if nd <= 4 {
		nw = 16
	} else if nd <= 9 {
		nw = 32
	}
	xn := c.Extract(x, nw-1, 0)
	for i := nd - 1; i >= 0; i-- {
		d := c.URem(xn, c.BV(10, nw))
		digits[i] = c.Add(c.Extract(d, 7, 0), c.BV('0', 8))
		xn = c.UDiv(xn, c.BV(10, nw))
	}
	if neg {
		digits = append([]*Term{c.BV('-', 8)}, digits...)
	}
	return mkStr(digits)
}

// nativeEval evaluates selected pure functions natively on concrete arguments.
func (m *machine) nativeEval(fn *ssa.Function, args []value) value {
	return nil
}

func (e *Engine) installNative() {
	in := e.intrinsics
	strFn := func(f func(string) string) intrinsic {
		return func(m *machine, caller *frame, fn *ssa.Function, args []value) value {
			s := args[0].(strV)
			if !s.IsConcrete() {
				if fn.Blocks != nil {
					return m.callFunction(caller, fn, args, nil)
				}
				m.unsupported("%s on symbolic string", fn)
			}
			return strV{s: f(s.s)}
		}
	}
	in["net/textproto.CanonicalMIMEHeaderKey"] = strFn(textproto.CanonicalMIMEHeaderKey)
	in["net/http.CanonicalHeaderKey"] = strFn(http.CanonicalHeaderKey)
	in["strings.ToLower"] = strFn(strings.ToLower)
	in["strings.ReplaceAll"] = func(m *machine, caller *frame, fn *ssa.Function, args []value) value {
		a, b, c := args[0].(strV), args[1].(strV), args[2].(strV)
		if !a.IsConcrete() || !b.IsConcrete() || !c.IsConcrete() {
			m.unsupported("strings.ReplaceAll on symbolic strings at %s", m.where())
		}
		return strV{s: strings.ReplaceAll(a.s, b.s, c.s)}
	}
	in["strings.ToUpper"] = strFn(strings.ToUpper)
	in["net/http.StatusText"] = func(m *machine, _ *frame, _ *ssa.Function, args []value) value {
		t := args[0].(*Term)
		v := m.concretize(t, "StatusText")
		return strV{s: http.StatusText(int(int64(v)))}
	}
}

package main

// Symbolic values of the interpreter. The layout follows
// golang.org/x/tools/go/ssa/interp (values are Go values, aggregates are Go
// slices, pointers are *value), except that every integer and boolean is an
// SMT term and strings are byte-term vectors of concrete length.

import (
	"fmt"
	"go/types"
	"strings"
	"unsafe"

	"golang.org/x/tools/go/ssa"
)

type value interface{}

type tuple []value
type array []value
type structure []value

// iface is an interface value; the zero iface is the nil interface.
type iface struct {
	t types.Type
	v value
}

// strV is a string of concrete length. If b == nil the content is the
// concrete Go string s, otherwise the bytes are the (possibly symbolic) terms b.
type strV struct {
	s string
	b []*Term
}

func (x strV) Len() int {
	if x.b != nil {
		return len(x.b)
	}
	return len(x.s)
}

func (x strV) IsConcrete() bool { return x.b == nil }

func (m *machine) strAt(x strV, i int) *Term {
	if x.b != nil {
		return x.b[i]
	}
	return m.ctx.BV(uint64(x.s[i]), 8)
}

func (m *machine) strBytes(x strV) []*Term {
	if x.b != nil {
		return x.b
	}
	out := make([]*Term, len(x.s))
	for i := 0; i < len(x.s); i++ {
		out[i] = m.ctx.BV(uint64(x.s[i]), 8)
	}
	return out
}

func mkStr(b []*Term) strV {
	conc := true
	for _, t := range b {
		if !t.IsConst() {
			conc = false
			break
		}
	}
	if conc {
		var sb strings.Builder
		for _, t := range b {
			sb.WriteByte(byte(t.cval))
		}
		return strV{s: sb.String()}
	}
	if len(b) == 0 {
		return strV{}
	}
	return strV{b: b}
}

func (x strV) slice(lo, hi int) strV {
	if x.b != nil {
		return mkStr(x.b[lo:hi])
	}
	return strV{s: x.s[lo:hi]}
}

// mapV is an association list in insertion order.
type mapV struct {
	keys []value
	vals []value
	kt   types.Type
	vt   types.Type
}

type chanV struct {
	buf    []value
	cap    int
	closed bool
	// any-time channel (timer model): receive may succeed whenever the
	// scheduler / harness says so
	timer bool
	fired bool
}

type closure struct {
	Fn  *ssa.Function
	Env []value
}

// opaque stands for objects of packages that are not executed.
type opaque struct {
	tag string
}

// unsafe.Pointer value
type unsafePtrV struct {
	p   *value  // original pointer if it came from a typed pointer
	arr []value // backing byte array if known
	idx int
}

// uintptr carrying provenance
type uptrV struct {
	t   *Term
	arr []value
	idx int
}

// pointer to a machine word overlaid on bytes arr[idx:idx+8] (little endian)
type wordPtrV struct {
	arr []value
	idx int
	n   int // number of bytes
}

// slice of machine words overlaid on bytes arr[idx:idx+n*count] (unsafe.Slice of a word pointer)
type wordSliceV struct {
	arr   []value
	idx   int
	n     int // bytes per word
	count int
}

// pointer to arr[idx] with symbolic idx (scalar element types only)
type symElemPtr struct {
	arr []value
	idx *Term // 64-bit
}

// rangeIter state for Range/Next
type mapIter struct {
	m *mapV
	i int
}
type strIter struct {
	s strV
	i int
}

type arrInfo struct {
	arr  []value
	base *Term
}

func ptrAddr(p *value) uintptr { return uintptr(unsafe.Pointer(p)) }

const valueSize = unsafe.Sizeof(value(nil))

// ---- type helpers ----

func bvWidth(t types.Type) (int, bool, bool) {
	b, ok := t.Underlying().(*types.Basic)
	if !ok {
		return 0, false, false
	}
	switch b.Kind() {
	case types.Int8:
		return 8, true, true
	case types.Uint8:
		return 8, false, true
	case types.Int16:
		return 16, true, true
	case types.Uint16:
		return 16, false, true
	case types.Int32, types.UntypedRune:
		return 32, true, true
	case types.Uint32:
		return 32, false, true
	case types.Int, types.Int64, types.UntypedInt:
		return 64, true, true
	case types.Uint, types.Uint64, types.Uintptr:
		return 64, false, true
	}
	return 0, false, false
}

func isBool(t types.Type) bool {
	b, ok := t.Underlying().(*types.Basic)
	return ok && b.Info()&types.IsBoolean != 0
}

func isString(t types.Type) bool {
	b, ok := t.Underlying().(*types.Basic)
	return ok && b.Info()&types.IsString != 0
}

func isUnsafePtr(t types.Type) bool {
	b, ok := t.Underlying().(*types.Basic)
	return ok && b.Kind() == types.UnsafePointer
}

func isFloat(t types.Type) bool {
	b, ok := t.Underlying().(*types.Basic)
	return ok && b.Info()&(types.IsFloat|types.IsComplex) != 0
}

// zero returns the zero value of type t.
func (m *machine) zero(t types.Type) value {
	switch tt := t.(type) {
	case *types.Alias:
		return m.zero(types.Unalias(t))
	case *types.Named:
		if tt.Obj().Pkg() != nil {
			p := tt.Obj().Pkg().Path()
			if opaquePkgs[p] && opaqueTypes[p+"."+tt.Obj().Name()] {
				return &opaque{tag: p + "." + tt.Obj().Name()}
			}
		}
		return m.zero(tt.Underlying())
	case *types.Basic:
		if w, _, ok := bvWidth(tt); ok {
			return m.ctx.BV(0, w)
		}
		switch {
		case tt.Kind() == types.UntypedNil:
			panic("untyped nil has no zero value")
		case tt.Info()&types.IsBoolean != 0:
			return m.ctx.False
		case tt.Info()&types.IsString != 0:
			return strV{}
		case tt.Kind() == types.UnsafePointer:
			return unsafePtrV{}
		case tt.Info()&types.IsFloat != 0:
			return float64(0)
		}
		panic(fmt.Sprintf("zero: unsupported basic type %s", tt))
	case *types.Pointer:
		return (*value)(nil)
	case *types.Array:
		n := int(tt.Len())
		if n > 1<<20 {
			return &opaque{tag: "hugearray"}
		}
		a := make(array, n)
		if n > 0 {
			z := m.zero(tt.Elem())
			if _, scalar := z.(*Term); scalar {
				for i := range a {
					a[i] = z
				}
			} else {
				a[0] = z
				for i := 1; i < n; i++ {
					a[i] = m.zero(tt.Elem())
				}
			}
		}
		return a
	case *types.Struct:
		s := make(structure, tt.NumFields())
		for i := range s {
			s[i] = m.zero(tt.Field(i).Type())
		}
		return s
	case *types.Tuple:
		if tt.Len() == 1 {
			return m.zero(tt.At(0).Type())
		}
		s := make(tuple, tt.Len())
		for i := range s {
			s[i] = m.zero(tt.At(i).Type())
		}
		return s
	case *types.Chan:
		return (*chanV)(nil)
	case *types.Map:
		return (*mapV)(nil)
	case *types.Signature:
		return nil
	case *types.Slice:
		return []value(nil)
	case *types.Interface:
		return iface{}
	case *types.TypeParam:
		panic("zero of type parameter")
	}
	panic(fmt.Sprintf("zero: unexpected type %T %s", t, t))
}

// copyVal deep-copies aggregates (arrays and structs are values in Go).
func copyVal(v value) value {
	switch v := v.(type) {
	case array:
		a := make(array, len(v))
		for i, e := range v {
			a[i] = copyVal(e)
		}
		return a
	case structure:
		s := make(structure, len(v))
		for i, e := range v {
			s[i] = copyVal(e)
		}
		return s
	}
	return v
}

func typeName(t types.Type) string {
	return types.TypeString(t, nil)
}

package main

// Hash-consed SMT terms (Bool and fixed-width bit-vectors) with constant
// folding and a handful of local rewrites. One Ctx per worker; terms of
// different Ctx must never be mixed.

import (
	"fmt"
	"math/bits"
	"strings"
)

type Op uint8

const (
	OpConst Op = iota
	OpVar
	OpNot
	OpAnd
	OpOr
	OpEq
	OpIte
	OpAdd
	OpSub
	OpMul
	OpUDiv
	OpURem
	OpSDiv
	OpSRem
	OpBAnd
	OpBOr
	OpBXor
	OpBNot
	OpNeg
	OpShl
	OpLShr
	OpAShr
	OpULt
	OpULe
	OpSLt
	OpSLe
	OpConcat
	OpExtract // cval = hi<<8|lo
	OpZExt
	OpSExt
)

var opNames = [...]string{
	OpNot: "not", OpAnd: "and", OpOr: "or", OpEq: "=", OpIte: "ite",
	OpAdd: "bvadd", OpSub: "bvsub", OpMul: "bvmul", OpUDiv: "bvudiv", OpURem: "bvurem",
	OpSDiv: "bvsdiv", OpSRem: "bvsrem", OpBAnd: "bvand", OpBOr: "bvor", OpBXor: "bvxor",
	OpBNot: "bvnot", OpNeg: "bvneg", OpShl: "bvshl", OpLShr: "bvlshr", OpAShr: "bvashr",
	OpULt: "bvult", OpULe: "bvule", OpSLt: "bvslt", OpSLe: "bvsle", OpConcat: "concat",
}

// Term. w == 0 means Bool; otherwise BitVec w (1..64).
type Term struct {
	op   Op
	w    uint8
	id   int32
	cval uint64 // OpConst value (masked); OpExtract hi<<8|lo
	name string // OpVar
	a    [3]*Term
	na   uint8
	sent bool // defined in the solver
}

func (t *Term) IsConst() bool { return t.op == OpConst }
func (t *Term) IsBool() bool  { return t.w == 0 }
func (t *Term) Width() int    { return int(t.w) }

// Const returns the constant value (zero-extended) and whether t is constant.
func (t *Term) Const() (uint64, bool) { return t.cval, t.op == OpConst }

// SConst returns the sign-extended constant.
func (t *Term) SConst() int64 {
	return sext64(t.cval, int(t.w))
}

func sext64(v uint64, w int) int64 {
	if w >= 64 {
		return int64(v)
	}
	sh := uint(64 - w)
	return int64(v<<sh) >> sh
}

func mask(w int) uint64 {
	if w >= 64 {
		return ^uint64(0)
	}
	return (uint64(1) << uint(w)) - 1
}

type termKey struct {
	op      Op
	w       uint8
	cval    uint64
	name    string
	a, b, c int32
}

type Ctx struct {
	tab    map[termKey]*Term
	nextID int32
	True   *Term
	False  *Term
	nvars  int
	vars   []*Term
}

func NewCtx() *Ctx {
	c := &Ctx{tab: make(map[termKey]*Term)}
	c.True = c.mk(OpConst, 0, 1, "", nil, nil, nil)
	c.False = c.mk(OpConst, 0, 0, "", nil, nil, nil)
	return c
}

func (c *Ctx) mk(op Op, w int, cval uint64, name string, a, b, d *Term) *Term {
	k := termKey{op: op, w: uint8(w), cval: cval, name: name, a: -1, b: -1, c: -1}
	n := uint8(0)
	if a != nil {
		k.a = a.id
		n = 1
	}
	if b != nil {
		k.b = b.id
		n = 2
	}
	if d != nil {
		k.c = d.id
		n = 3
	}
	if t, ok := c.tab[k]; ok {
		return t
	}
	t := &Term{op: op, w: uint8(w), id: c.nextID, cval: cval, name: name, na: n}
	t.a[0], t.a[1], t.a[2] = a, b, d
	c.nextID++
	c.tab[k] = t
	return t
}

func (c *Ctx) Bool(b bool) *Term {
	if b {
		return c.True
	}
	return c.False
}

func (c *Ctx) BV(v uint64, w int) *Term {
	if w == 0 {
		return c.Bool(v != 0)
	}
	return c.mk(OpConst, w, v&mask(w), "", nil, nil, nil)
}

// Var creates (or returns) a named variable.
func (c *Ctx) Var(name string, w int) *Term {
	k := termKey{op: OpVar, w: uint8(w), name: name, a: -1, b: -1, c: -1}
	if t, ok := c.tab[k]; ok {
		return t
	}
	t := c.mk(OpVar, w, 0, name, nil, nil, nil)
	c.vars = append(c.vars, t)
	return t
}

// ---- boolean ----

func (c *Ctx) Not(a *Term) *Term {
	if a.op == OpConst {
		return c.Bool(a.cval == 0)
	}
	if a.op == OpNot {
		return a.a[0]
	}
	return c.mk(OpNot, 0, 0, "", a, nil, nil)
}

func (c *Ctx) And(a, b *Term) *Term {
	if a.op == OpConst {
		if a.cval == 0 {
			return c.False
		}
		return b
	}
	if b.op == OpConst {
		if b.cval == 0 {
			return c.False
		}
		return a
	}
	if a == b {
		return a
	}
	if (a.op == OpNot && a.a[0] == b) || (b.op == OpNot && b.a[0] == a) {
		return c.False
	}
	if a.id > b.id {
		a, b = b, a
	}
	return c.mk(OpAnd, 0, 0, "", a, b, nil)
}

func (c *Ctx) Or(a, b *Term) *Term {
	if a.op == OpConst {
		if a.cval != 0 {
			return c.True
		}
		return b
	}
	if b.op == OpConst {
		if b.cval != 0 {
			return c.True
		}
		return a
	}
	if a == b {
		return a
	}
	if (a.op == OpNot && a.a[0] == b) || (b.op == OpNot && b.a[0] == a) {
		return c.True
	}
	if a.id > b.id {
		a, b = b, a
	}
	return c.mk(OpOr, 0, 0, "", a, b, nil)
}

func (c *Ctx) Implies(a, b *Term) *Term { return c.Or(c.Not(a), b) }

func (c *Ctx) Eq(a, b *Term) *Term {
	if a.w != b.w {
		panic(fmt.Sprintf("Eq width mismatch %d %d", a.w, b.w))
	}
	if a == b {
		return c.True
	}
	if a.op == OpConst && b.op == OpConst {
		return c.Bool(a.cval == b.cval)
	}
	if a.w == 0 {
		if a.op == OpConst {
			if a.cval != 0 {
				return b
			}
			return c.Not(b)
		}
		if b.op == OpConst {
			if b.cval != 0 {
				return a
			}
			return c.Not(a)
		}
	}
	// (x ^ k1) == k2  ->  x == k1^k2 ; (x + k1) == k2 -> x == k2-k1
	if b.op == OpConst && a.op == OpBXor && a.a[1].op == OpConst {
		return c.Eq(a.a[0], c.BV(a.a[1].cval^b.cval, int(a.w)))
	}
	if a.op == OpConst && b.op == OpBXor && b.a[1].op == OpConst {
		return c.Eq(b.a[0], c.BV(b.a[1].cval^a.cval, int(a.w)))
	}
	// zext(x) == const
	if b.op == OpConst && a.op == OpZExt {
		iw := int(a.a[0].w)
		if b.cval&^mask(iw) != 0 {
			return c.False
		}
		return c.Eq(a.a[0], c.BV(b.cval, iw))
	}
	if a.op == OpConst && b.op == OpZExt {
		return c.Eq(b, a)
	}
	// ite(c, k1, k2) == k3
	if b.op == OpConst && a.op == OpIte && a.a[1].op == OpConst && a.a[2].op == OpConst {
		t1 := a.a[1].cval == b.cval
		t2 := a.a[2].cval == b.cval
		switch {
		case t1 && t2:
			return c.True
		case t1:
			return a.a[0]
		case t2:
			return c.Not(a.a[0])
		default:
			return c.False
		}
	}
	if a.op == OpConst && b.op == OpIte {
		return c.Eq(b, a)
	}
	if a.id > b.id {
		a, b = b, a
	}
	return c.mk(OpEq, 0, 0, "", a, b, nil)
}

func (c *Ctx) Ite(cond, a, b *Term) *Term {
	if a.w != b.w {
		panic("Ite width mismatch")
	}
	if cond.op == OpConst {
		if cond.cval != 0 {
			return a
		}
		return b
	}
	if a == b {
		return a
	}
	if a.w == 0 {
		if a.op == OpConst && b.op == OpConst {
			if a.cval != 0 {
				return cond
			}
			return c.Not(cond)
		}
		if a.op == OpConst {
			if a.cval != 0 {
				return c.Or(cond, b)
			}
			return c.And(c.Not(cond), b)
		}
		if b.op == OpConst {
			if b.cval != 0 {
				return c.Or(c.Not(cond), a)
			}
			return c.And(cond, a)
		}
	}
	if cond.op == OpNot {
		return c.Ite(cond.a[0], b, a)
	}
	return c.mk(OpIte, int(a.w), 0, "", cond, a, b)
}

// ---- bit-vector ----

func (c *Ctx) bin(op Op, a, b *Term) *Term {
	if a.w != b.w || a.w == 0 {
		panic(fmt.Sprintf("bin %s width mismatch %d %d", opNames[op], a.w, b.w))
	}
	w := int(a.w)
	m := mask(w)
	if a.op == OpConst && b.op == OpConst {
		x, y := a.cval, b.cval
		var r uint64
		switch op {
		case OpAdd:
			r = x + y
		case OpSub:
			r = x - y
		case OpMul:
			r = x * y
		case OpUDiv:
			if y == 0 {
				r = m
			} else {
				r = x / y
			}
		case OpURem:
			if y == 0 {
				r = x
			} else {
				r = x % y
			}
		case OpSDiv:
			sx, sy := sext64(x, w), sext64(y, w)
			if sy == 0 {
				if sx >= 0 {
					r = m
				} else {
					r = 1
				}
			} else if sy == -1 {
				r = uint64(-sx)
			} else {
				r = uint64(sx / sy)
			}
		case OpSRem:
			sx, sy := sext64(x, w), sext64(y, w)
			if sy == 0 {
				r = x
			} else if sy == -1 {
				r = 0
			} else {
				r = uint64(sx % sy)
			}
		case OpBAnd:
			r = x & y
		case OpBOr:
			r = x | y
		case OpBXor:
			r = x ^ y
		case OpShl:
			if y >= uint64(w) {
				r = 0
			} else {
				r = x << y
			}
		case OpLShr:
			if y >= uint64(w) {
				r = 0
			} else {
				r = x >> y
			}
		case OpAShr:
			sx := sext64(x, w)
			if y >= uint64(w) {
				y = uint64(w - 1)
			}
			r = uint64(sx >> y)
		}
		return c.BV(r, w)
	}
	// signed div/rem of a known non-negative value by a positive constant
	if (op == OpSDiv || op == OpSRem) && b.op == OpConst && sext64(b.cval, w) > 0 {
		if mx, _ := c.urange(a); mx <= m>>1 {
			if op == OpSDiv {
				return c.bin(OpUDiv, a, b)
			}
			return c.bin(OpURem, a, b)
		}
	}
	// identities
	switch op {
	case OpAdd:
		if a.op == OpConst {
			a, b = b, a
		}
		if b.op == OpConst {
			if b.cval == 0 {
				return a
			}
			// (x + k1) + k2
			if a.op == OpAdd && a.a[1].op == OpConst {
				return c.bin(OpAdd, a.a[0], c.BV(a.a[1].cval+b.cval, w))
			}
			return c.mk(op, w, 0, "", a, b, nil)
		}
		if a.id > b.id {
			a, b = b, a
		}
	case OpSub:
		if b.op == OpConst {
			if b.cval == 0 {
				return a
			}
			return c.bin(OpAdd, a, c.BV(-b.cval, w))
		}
		if a == b {
			return c.BV(0, w)
		}
		// (x + k) - x -> k
		if a.op == OpAdd && a.a[0] == b {
			return a.a[1]
		}
		if a.op == OpAdd || b.op == OpAdd {
			// cancel common addends: (x + p) - (x + q) -> p - q
			pa := c.addends(a, nil, 0)
			pb := c.addends(b, nil, 0)
			if len(pa) <= 8 && len(pb) <= 8 {
				cancelled := false
				for i := 0; i < len(pa); i++ {
					for j := 0; j < len(pb); j++ {
						if pa[i] != nil && pb[j] != nil && pa[i] == pb[j] && pa[i].op != OpConst {
							pa[i], pb[j] = nil, nil
							cancelled = true
						}
					}
				}
				if cancelled {
					sum := func(l []*Term) *Term {
						var r *Term
						for _, t := range l {
							if t == nil {
								continue
							}
							if r == nil {
								r = t
							} else {
								r = c.bin(OpAdd, r, t)
							}
						}
						if r == nil {
							r = c.BV(0, w)
						}
						return r
					}
					return c.bin(OpSub, sum(pa), sum(pb))
				}
			}
		}
	case OpMul:
		if a.op == OpConst {
			a, b = b, a
		}
		if b.op == OpConst {
			if b.cval == 0 {
				return b
			}
			if b.cval == 1 {
				return a
			}
			if bits.OnesCount64(b.cval) == 1 {
				return c.bin(OpShl, a, c.BV(uint64(bits.TrailingZeros64(b.cval)), w))
			}
		}
	case OpUDiv:
		if b.op == OpConst && b.cval == 1 {
			return a
		}
		if b.op == OpConst && bits.OnesCount64(b.cval) == 1 {
			return c.bin(OpLShr, a, c.BV(uint64(bits.TrailingZeros64(b.cval)), w))
		}
	case OpURem:
		if b.op == OpConst && b.cval == 1 {
			return c.BV(0, w)
		}
		if b.op == OpConst && bits.OnesCount64(b.cval) == 1 {
			return c.bin(OpBAnd, a, c.BV(b.cval-1, w))
		}
	case OpBAnd:
		if a.op == OpConst {
			a, b = b, a
		}
		if b.op == OpConst {
			if b.cval == 0 {
				return b
			}
			if b.cval == m {
				return a
			}
			if a.op == OpBAnd && a.a[1].op == OpConst {
				return c.bin(OpBAnd, a.a[0], c.BV(a.a[1].cval&b.cval, w))
			}
			// zext(x) & k where k covers x entirely
			if a.op == OpZExt {
				iw := int(a.a[0].w)
				if b.cval&mask(iw) == mask(iw) {
					return a
				}
				return c.ZExt(c.bin(OpBAnd, a.a[0], c.BV(b.cval, iw)), w)
			}
			if a.op == OpBOr && a.a[1].op == OpConst {
				// (x | k1) & k2 -> (x & k2) | (k1 & k2)
				return c.bin(OpBOr, c.bin(OpBAnd, a.a[0], b), c.BV(a.a[1].cval&b.cval, w))
			}
			return c.mk(op, w, 0, "", a, b, nil)
		}
		if a == b {
			return a
		}
		if a.id > b.id {
			a, b = b, a
		}
	case OpBOr:
		if a.op == OpConst {
			a, b = b, a
		}
		if b.op == OpConst {
			if b.cval == 0 {
				return a
			}
			if b.cval == m {
				return b
			}
			if a.op == OpBOr && a.a[1].op == OpConst {
				return c.bin(OpBOr, a.a[0], c.BV(a.a[1].cval|b.cval, w))
			}
			return c.mk(op, w, 0, "", a, b, nil)
		}
		if a == b {
			return a
		}
		if a.id > b.id {
			a, b = b, a
		}
	case OpBXor:
		if a.op == OpConst {
			a, b = b, a
		}
		if a == b {
			return c.BV(0, w)
		}
		if b.op == OpConst {
			if b.cval == 0 {
				return a
			}
			if a.op == OpBXor && a.a[1].op == OpConst {
				return c.bin(OpBXor, a.a[0], c.BV(a.a[1].cval^b.cval, w))
			}
			return c.mk(op, w, 0, "", a, b, nil)
		}
		// (x ^ y) ^ y -> x
		if a.op == OpBXor {
			if a.a[0] == b {
				return a.a[1]
			}
			if a.a[1] == b {
				return a.a[0]
			}
		}
		if b.op == OpBXor {
			if b.a[0] == a {
				return b.a[1]
			}
			if b.a[1] == a {
				return b.a[0]
			}
		}
		if a.id > b.id {
			a, b = b, a
		}
	case OpShl, OpLShr, OpAShr:
		if b.op == OpConst {
			if b.cval == 0 {
				return a
			}
			if b.cval >= uint64(w) && op != OpAShr {
				return c.BV(0, w)
			}
		}
		if a.op == OpConst && a.cval == 0 {
			return a
		}
		// shl of zext by constant: byte<<k patterns -> concat
		if b.op == OpConst && op == OpShl && a.op == OpZExt {
			iw := int(a.a[0].w)
			k := int(b.cval)
			if iw+k <= w {
				// zeros(w-iw-k) ++ x ++ zeros(k)
				t := a.a[0]
				if k > 0 {
					t = c.Concat(t, c.BV(0, k))
				}
				return c.ZExt(t, w)
			}
		}
		if b.op == OpConst && op == OpLShr {
			k := int(b.cval)
			return c.ZExt(c.Extract(a, w-1, k), w)
		}
	}
	return c.mk(op, w, 0, "", a, b, nil)
}

// addends flattens nested additions.
func (c *Ctx) addends(t *Term, out []*Term, depth int) []*Term {
	if t.op == OpAdd && depth < 6 {
		out = c.addends(t.a[0], out, depth+1)
		return c.addends(t.a[1], out, depth+1)
	}
	return append(out, t)
}

func (c *Ctx) Add(a, b *Term) *Term  { return c.bin(OpAdd, a, b) }
func (c *Ctx) Sub(a, b *Term) *Term  { return c.bin(OpSub, a, b) }
func (c *Ctx) Mul(a, b *Term) *Term  { return c.bin(OpMul, a, b) }
func (c *Ctx) UDiv(a, b *Term) *Term { return c.bin(OpUDiv, a, b) }
func (c *Ctx) URem(a, b *Term) *Term { return c.bin(OpURem, a, b) }
func (c *Ctx) SDiv(a, b *Term) *Term { return c.bin(OpSDiv, a, b) }
func (c *Ctx) SRem(a, b *Term) *Term { return c.bin(OpSRem, a, b) }
func (c *Ctx) BAnd(a, b *Term) *Term { return c.bin(OpBAnd, a, b) }
func (c *Ctx) BOr(a, b *Term) *Term {
	// or of disjoint zext/concat pieces -> keep generic but try concat merge
	if r := c.orMerge(a, b); r != nil {
		return r
	}
	return c.bin(OpBOr, a, b)
}
func (c *Ctx) BXor(a, b *Term) *Term { return c.bin(OpBXor, a, b) }
func (c *Ctx) Shl(a, b *Term) *Term  { return c.bin(OpShl, a, b) }
func (c *Ctx) LShr(a, b *Term) *Term { return c.bin(OpLShr, a, b) }
func (c *Ctx) AShr(a, b *Term) *Term { return c.bin(OpAShr, a, b) }

// pieces decomposes t (width w) into a per-bit-range description if it is a
// zext/concat/const tree: returns slices of (term, lo, width) covering
// non-zero parts. Used to merge x<<8|y patterns into concat.
type piece struct {
	t  *Term
	lo int
}

func (c *Ctx) pieces(t *Term, lo int, out *[]piece) bool {
	switch t.op {
	case OpConst:
		if t.cval == 0 {
			return true
		}
		*out = append(*out, piece{t, lo})
		return true
	case OpZExt:
		return c.pieces(t.a[0], lo, out)
	case OpConcat:
		if !c.pieces(t.a[1], lo, out) {
			return false
		}
		return c.pieces(t.a[0], lo+int(t.a[1].w), out)
	case OpBOr:
		// only if disjoint; checked by caller
		return false
	default:
		*out = append(*out, piece{t, lo})
		return true
	}
}

func (c *Ctx) orMerge(a, b *Term) *Term {
	if a.w != b.w || a.w == 0 {
		return nil
	}
	if a.op == OpConst || b.op == OpConst {
		return nil
	}
	if !(a.op == OpZExt || a.op == OpConcat) || !(b.op == OpZExt || b.op == OpConcat) {
		return nil
	}
	var pa, pb []piece
	if !c.pieces(a, 0, &pa) || !c.pieces(b, 0, &pb) {
		return nil
	}
	all := append(pa, pb...)
	// sort by lo
	for i := 1; i < len(all); i++ {
		for j := i; j > 0 && all[j].lo < all[j-1].lo; j-- {
			all[j], all[j-1] = all[j-1], all[j]
		}
	}
	w := int(a.w)
	pos := 0
	var res *Term
	app := func(t *Term) {
		if res == nil {
			res = t
		} else {
			res = c.Concat(t, res)
		}
	}
	for _, p := range all {
		if p.lo < pos {
			return nil // overlap
		}
		if p.lo > pos {
			app(c.BV(0, p.lo-pos))
		}
		app(p.t)
		pos = p.lo + int(p.t.w)
	}
	if pos > w {
		return nil
	}
	if res == nil {
		return c.BV(0, w)
	}
	return c.ZExt(res, w)
}

func (c *Ctx) BNot(a *Term) *Term {
	if a.op == OpConst {
		return c.BV(^a.cval, int(a.w))
	}
	if a.op == OpBNot {
		return a.a[0]
	}
	return c.mk(OpBNot, int(a.w), 0, "", a, nil, nil)
}

func (c *Ctx) Neg(a *Term) *Term {
	if a.op == OpConst {
		return c.BV(-a.cval, int(a.w))
	}
	return c.mk(OpNeg, int(a.w), 0, "", a, nil, nil)
}

func (c *Ctx) cmp(op Op, a, b *Term) *Term {
	if a.w != b.w || a.w == 0 {
		panic(fmt.Sprintf("cmp width mismatch %d %d", a.w, b.w))
	}
	w := int(a.w)
	if a.op == OpConst && b.op == OpConst {
		switch op {
		case OpULt:
			return c.Bool(a.cval < b.cval)
		case OpULe:
			return c.Bool(a.cval <= b.cval)
		case OpSLt:
			return c.Bool(sext64(a.cval, w) < sext64(b.cval, w))
		case OpSLe:
			return c.Bool(sext64(a.cval, w) <= sext64(b.cval, w))
		}
	}
	if a == b {
		return c.Bool(op == OpULe || op == OpSLe)
	}
	// range reasoning on zero-extended operands
	amax, amin := c.urange(a)
	bmax, bmin := c.urange(b)
	signedSafe := amax <= mask(w)>>1 && bmax <= mask(w)>>1
	if op == OpULt || (op == OpSLt && signedSafe) {
		if amax < bmin {
			return c.True
		}
		if amin >= bmax {
			return c.False
		}
	}
	if op == OpULe || (op == OpSLe && signedSafe) {
		if amax <= bmin {
			return c.True
		}
		if amin > bmax {
			return c.False
		}
	}
	return c.mk(op, 0, 0, "", a, b, nil)
}

// urange returns a cheap (max,min) unsigned bound of t.
func (c *Ctx) urange(t *Term) (uint64, uint64) {
	switch t.op {
	case OpConst:
		return t.cval, t.cval
	case OpZExt:
		mx, mn := c.urange(t.a[0])
		return mx, mn
	case OpBAnd:
		if t.a[1].op == OpConst {
			return t.a[1].cval, 0
		}
	case OpIte:
		mx1, mn1 := c.urange(t.a[1])
		mx2, mn2 := c.urange(t.a[2])
		if mx2 > mx1 {
			mx1 = mx2
		}
		if mn2 < mn1 {
			mn1 = mn2
		}
		return mx1, mn1
	}
	return mask(int(t.w)), 0
}

func (c *Ctx) ULt(a, b *Term) *Term { return c.cmp(OpULt, a, b) }
func (c *Ctx) ULe(a, b *Term) *Term { return c.cmp(OpULe, a, b) }
func (c *Ctx) SLt(a, b *Term) *Term { return c.cmp(OpSLt, a, b) }
func (c *Ctx) SLe(a, b *Term) *Term { return c.cmp(OpSLe, a, b) }

func (c *Ctx) Concat(hi, lo *Term) *Term {
	w := int(hi.w) + int(lo.w)
	if w > 64 {
		panic("concat > 64")
	}
	if hi.op == OpConst && lo.op == OpConst {
		return c.BV(hi.cval<<uint(lo.w)|lo.cval, w)
	}
	// concat(extract(x,h,m+1), extract(x,m,l)) -> extract(x,h,l)
	if hi.op == OpExtract && lo.op == OpExtract && hi.a[0] == lo.a[0] {
		hh, hl := int(hi.cval>>8), int(hi.cval&0xff)
		lh, ll := int(lo.cval>>8), int(lo.cval&0xff)
		if hl == lh+1 {
			return c.Extract(hi.a[0], hh, ll)
		}
	}
	return c.mk(OpConcat, w, 0, "", hi, lo, nil)
}

func (c *Ctx) Extract(a *Term, hi, lo int) *Term {
	w := hi - lo + 1
	if w <= 0 || hi >= int(a.w) {
		panic(fmt.Sprintf("bad extract [%d:%d] of width %d", hi, lo, a.w))
	}
	if w == int(a.w) {
		return a
	}
	switch a.op {
	case OpConst:
		return c.BV(a.cval>>uint(lo), w)
	case OpConcat:
		lw := int(a.a[1].w)
		if hi < lw {
			return c.Extract(a.a[1], hi, lo)
		}
		if lo >= lw {
			return c.Extract(a.a[0], hi-lw, lo-lw)
		}
		return c.Concat(c.Extract(a.a[0], hi-lw, 0), c.Extract(a.a[1], lw-1, lo))
	case OpZExt:
		iw := int(a.a[0].w)
		if hi < iw {
			return c.Extract(a.a[0], hi, lo)
		}
		if lo >= iw {
			return c.BV(0, w)
		}
		return c.ZExt(c.Extract(a.a[0], iw-1, lo), w)
	case OpSExt:
		iw := int(a.a[0].w)
		if hi < iw {
			return c.Extract(a.a[0], hi, lo)
		}
	case OpExtract:
		l0 := int(a.cval & 0xff)
		return c.Extract(a.a[0], hi+l0, lo+l0)
	case OpBXor, OpBAnd, OpBOr:
		return c.bin(a.op, c.Extract(a.a[0], hi, lo), c.Extract(a.a[1], hi, lo))
	case OpBNot:
		return c.BNot(c.Extract(a.a[0], hi, lo))
	case OpIte:
		return c.Ite(a.a[0], c.Extract(a.a[1], hi, lo), c.Extract(a.a[2], hi, lo))
	case OpAdd, OpSub, OpMul:
		if lo == 0 {
			return c.bin(a.op, c.Extract(a.a[0], hi, 0), c.Extract(a.a[1], hi, 0))
		}
	}
	return c.mk(OpExtract, w, uint64(hi)<<8|uint64(lo), "", a, nil, nil)
}

func (c *Ctx) ZExt(a *Term, w int) *Term {
	if int(a.w) == w {
		return a
	}
	if int(a.w) > w {
		return c.Extract(a, w-1, 0)
	}
	if a.op == OpConst {
		return c.BV(a.cval, w)
	}
	if a.op == OpZExt {
		return c.ZExt(a.a[0], w)
	}
	if a.op == OpIte && a.a[1].op == OpConst && a.a[2].op == OpConst {
		return c.Ite(a.a[0], c.BV(a.a[1].cval, w), c.BV(a.a[2].cval, w))
	}
	return c.mk(OpZExt, w, 0, "", a, nil, nil)
}

func (c *Ctx) SExt(a *Term, w int) *Term {
	if int(a.w) == w {
		return a
	}
	if int(a.w) > w {
		return c.Extract(a, w-1, 0)
	}
	if a.op == OpConst {
		return c.BV(uint64(sext64(a.cval, int(a.w))), w)
	}
	if a.op == OpZExt {
		return c.ZExt(a.a[0], w)
	}
	// known-nonnegative
	if mx, _ := c.urange(a); mx <= mask(int(a.w))>>1 {
		return c.ZExt(a, w)
	}
	return c.mk(OpSExt, w, 0, "", a, nil, nil)
}

// ---- printing ----

func sortStr(w uint8) string {
	if w == 0 {
		return "Bool"
	}
	return fmt.Sprintf("(_ BitVec %d)", w)
}

func (t *Term) ref() string {
	switch t.op {
	case OpConst:
		if t.w == 0 {
			if t.cval != 0 {
				return "true"
			}
			return "false"
		}
		if t.w%4 == 0 {
			return fmt.Sprintf("#x%0*x", int(t.w)/4, t.cval)
		}
		return fmt.Sprintf("(_ bv%d %d)", t.cval, t.w)
	case OpVar:
		return t.name
	}
	return fmt.Sprintf("t%d", t.id)
}

func (t *Term) body() string {
	switch t.op {
	case OpExtract:
		return fmt.Sprintf("((_ extract %d %d) %s)", t.cval>>8, t.cval&0xff, t.a[0].ref())
	case OpZExt:
		return fmt.Sprintf("((_ zero_extend %d) %s)", int(t.w)-int(t.a[0].w), t.a[0].ref())
	case OpSExt:
		return fmt.Sprintf("((_ sign_extend %d) %s)", int(t.w)-int(t.a[0].w), t.a[0].ref())
	}
	var sb strings.Builder
	sb.WriteByte('(')
	sb.WriteString(opNames[t.op])
	for i := 0; i < int(t.na); i++ {
		sb.WriteByte(' ')
		sb.WriteString(t.a[i].ref())
	}
	sb.WriteByte(')')
	return sb.String()
}

// String renders a term fully inlined (debugging / evidence samples only).
func (t *Term) String() string {
	return t.str(0)
}

func (t *Term) str(depth int) string {
	if t.op == OpConst || t.op == OpVar {
		return t.ref()
	}
	if depth > 6 {
		return "…"
	}
	switch t.op {
	case OpExtract:
		return fmt.Sprintf("%s[%d:%d]", t.a[0].str(depth+1), t.cval>>8, t.cval&0xff)
	case OpZExt:
		return fmt.Sprintf("zx%d(%s)", t.w, t.a[0].str(depth+1))
	case OpSExt:
		return fmt.Sprintf("sx%d(%s)", t.w, t.a[0].str(depth+1))
	}
	var sb strings.Builder
	sb.WriteByte('(')
	sb.WriteString(opNames[t.op])
	for i := 0; i < int(t.na); i++ {
		sb.WriteByte(' ')
		sb.WriteString(t.a[i].str(depth + 1))
	}
	sb.WriteByte(')')
	return sb.String()
}

// eval evaluates t under an assignment of variables (by name).
func (c *Ctx) eval(t *Term, env map[string]uint64, memo map[*Term]uint64) uint64 {
	if v, ok := memo[t]; ok {
		return v
	}
	var r uint64
	w := int(t.w)
	switch t.op {
	case OpConst:
		r = t.cval
	case OpVar:
		r = env[t.name] & mask(maxInt(w, 1))
	default:
		var av [3]*Term
		for i := 0; i < int(t.na); i++ {
			x := t.a[i]
			av[i] = c.BV(c.eval(x, env, memo), int(x.w))
		}
		var rt *Term
		switch t.op {
		case OpNot:
			rt = c.Not(av[0])
		case OpAnd:
			rt = c.And(av[0], av[1])
		case OpOr:
			rt = c.Or(av[0], av[1])
		case OpEq:
			rt = c.Eq(av[0], av[1])
		case OpIte:
			rt = c.Ite(av[0], av[1], av[2])
		case OpBNot:
			rt = c.BNot(av[0])
		case OpNeg:
			rt = c.Neg(av[0])
		case OpULt, OpULe, OpSLt, OpSLe:
			rt = c.cmp(t.op, av[0], av[1])
		case OpConcat:
			rt = c.Concat(av[0], av[1])
		case OpExtract:
			rt = c.Extract(av[0], int(t.cval>>8), int(t.cval&0xff))
		case OpZExt:
			rt = c.ZExt(av[0], w)
		case OpSExt:
			rt = c.SExt(av[0], w)
		default:
			rt = c.bin(t.op, av[0], av[1])
		}
		r = rt.cval
	}
	memo[t] = r
	return r
}

func maxInt(a, b int) int {
	if a > b {
		return a
	}
	return b
}

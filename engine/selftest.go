package main

// gosmt selftest: validates the translator. Each harness is executed by the
// engine with every nondeterministic input fixed to a seeded concrete value
// (all terms fold to constants, no solver), the drawn values are written out as
// a witness, the same harness is run natively on that witness, and the two
// sequences of assertion outcomes are compared.

import (
	"encoding/json"
	"flag"
	"fmt"
	mrand "math/rand"
	"os"
	"path/filepath"
	"strings"
)

var selftestHarnesses = []string{
	"vfH_mask_kernel", "vfH_trunc_step", "vfH_rt_e2e", "vfH_rt_chunk", "vfH_wire_thresholds", "vfH_control_step", "vfH_mask_keys",
	"vfH_read_e2e", "vfH_fault_read", "vfH_limit_history", "vfH_violation_after_message", "vfH_read_step_data", "vfH_read_step_ctl",
	"vfH_fault_write", "vfH_invalid_req", "vfH_deadline", "vfH_close_seq", "vfH_pool_seq", "vfH_prepared_seq",
	"vfH_tokenlist_diff", "vfH_fold_diff", "vfH_key_diff", "vfH_parsers_nopanic", "vfH_offer_variants",
	"vfH_upgrade_logic", "vfH_origin_wiring", "vfH_server_boundary", "vfH_connect_reply", "vfH_frame_nopanic",
	"vfH_socks_reply", "vfH_origin_urls", "vfH_dial_logic", "vfH_smoke_stdlib", "vfH_smoke_range", "vfH_wc_blocked",
}

func cmdSelftest(args []string) int {
	fs := flag.NewFlagSet("selftest", flag.ExitOnError)
	n := fs.Int("n", 6, "samples per harness")
	hs := fs.String("H", "", "harnesses (default: built-in list)")
	seed := fs.Int64("seed", 1, "seed")
	repo := fs.String("repo", "/repo", "repository")
	fs.Parse(args)
	hdir := filepath.Join(verifRoot(), "harness")
	ov, err := harnessOverlay(*repo, hdir)
	if err != nil {
		fmt.Fprintln(os.Stderr, err)
		return 2
	}
	e, err := loadEngine(*repo, ov, "verif")
	if err != nil {
		fmt.Fprintln(os.Stderr, "load:", err)
		return 2
	}
	names := harnessNames(e)
	list := selftestHarnesses
	if *hs != "" {
		list = strings.Split(*hs, ",")
	}
	e.nworkers = 1
	e.concrete = mrand.New(mrand.NewSource(*seed))
	total, agree, skipped, modelDep, weak := 0, 0, 0, 0, 0
	weakOK := map[string]bool{"vfH_dial_logic": true, "vfH_negotiate": true}
	var bad []string
	for _, h := range list {
		for i := 0; i < *n; i++ {
			e.params = map[string]int{}
			e.maxPaths = 1
			e.selfDigest = nil
			e.selfNondets = nil
			e.selfStatus = ""
			r := e.runHarness(h)
			if len(r.EngineBugs) > 0 {
				bad = append(bad, fmt.Sprintf("%s: engine error %s", h, firstLine(r.EngineBugs[0])))
				total++
				continue
			}
			if e.selfStatus == "assume" || e.selfStatus == "unsupported" || e.selfStatus == "exhausted" || e.selfStatus == "limit" || e.selfStatus == "infeasible" {
				skipped++
				continue // the random inputs fell outside the harness's assumptions
			}
			usedModel := false
			for fn := range r.Functions {
				if strings.Contains(fn, "vfFlate") {
					usedModel = true
				}
			}
			if usedModel {
				modelDep++
				continue // the stored-block model produces other wire lengths than compress/flate: not comparable step by step
			}
			total++
			// native run on the same inputs
			v := ViolationOut{Kind: "selftest", ID: "selftest", Harness: h, Params: map[string]int{}, Nondets: e.selfNondets}
			wb, _ := json.Marshal(v)
			wpath := filepath.Join(verifRoot(), "replays", "tmp", fmt.Sprintf("selftest_%d.json", os.Getpid()))
			os.MkdirAll(filepath.Dir(wpath), 0o755)
			os.WriteFile(wpath, wb, 0o644)
			_, out := replayWitness(*repo, hdir, names, wpath, &v)
			os.Remove(wpath)
			nat := ""
			if i := strings.Index(out, "DIGEST["); i >= 0 {
				nat = out[i+7:]
				if j := strings.Index(nat, "]"); j >= 0 {
					nat = nat[:j]
				}
			}
			// repeated outcomes of one assertion in a loop are collapsed: loop trip
			// counts legitimately differ where a model stands in for a package
			// (the stored-block deflate model produces other lengths than compress/flate)
			nat = collapseDigest(strings.Split(nat, ","))
			eng := collapseDigest(e.selfDigest)
			engFail := ""
			for _, d := range e.selfDigest {
				if strings.HasSuffix(d, "=false") {
					engFail = d
					break
				}
			}
			natFail := ""
			for _, d := range strings.Split(nat, ",") {
				if strings.HasSuffix(d, "=false") {
					natFail = d
					break
				}
			}
			natCrashed := strings.Contains(out, "panic") || out == ""
			if nat == eng || (engFail != "" && strings.HasSuffix(nat, engFail) && strings.HasPrefix(eng, nat)) {
				agree++
			} else if weakOK[h] && engFail == natFail && !natCrashed {
				// harnesses with engine-only assertions (guarded by vfSymbolic): the
				// sequences differ by construction; outcomes must still agree
				agree++
				weak++
			} else {
				bad = append(bad, fmt.Sprintf("%s sample %d: engine [%s] status=%s / native [%s] (%s)", h, i, truncStr(eng, 300), e.selfStatus, truncStr(nat, 300), truncStr(out, 200)))
			}
		}
		fmt.Printf("selftest %-32s cumulative: %d compared, %d agree, %d skipped\n", h, total, agree, skipped)
	}
	for _, b := range bad {
		fmt.Println("SELFTEST-MISMATCH:", b)
	}
	fmt.Printf("selftest: %d concrete runs compared with native execution, %d agree (%d of them on outcome only), %d skipped (inputs outside assumptions), %d not compared (deflate model in use)\n", total, agree, weak, skipped, modelDep)
	if len(bad) > 0 {
		return 1
	}
	return 0
}

func collapseDigest(d []string) string {
	var out []string
	for _, x := range d {
		if len(out) > 0 && out[len(out)-1] == x {
			continue
		}
		out = append(out, x)
	}
	return strings.Join(out, ",")
}

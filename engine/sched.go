package main

// Threads: interpreted goroutines run as real goroutines, one at a time
// (token passing). At every visible operation (channel operation, mutex,
// Once, pool, an explicit vfYield in the transport model, goroutine start
// and end) the running thread lets a nondeterministic scheduler (a forking
// choice, bounded by a preemption budget) pick who continues. Between visible
// operations a thread runs uninterrupted, which is sound for data-race-free
// executions; a vector-clock happens-before detector checks that side
// condition on every heap cell access and reports races.

import (
	"fmt"

	"golang.org/x/tools/go/ssa"
)

type gthread struct {
	waitRecv []*chanV // channels this goroutine is blocked receiving from
	waitSeq  int
	gotCh    *chanV // direct hand-off: a sender gave its value to this blocked receiver
	gotVal   value
	id       int
	resume   chan bool // true: run, false: abort
	done     bool
	canRun   func() bool // nil: runnable
	what     string
	vc       []int
	started  bool
}

type accessRec struct {
	wTid   int
	wClock int
	wSite  string
	reads  map[int]int
	rSite  map[int]string
}

type threadsState struct {
	threads     []*gthread
	cur         *gthread
	preemptions int
	maxPreempt  int
	abortWith   interface{}
	shutting    bool
	acc         map[*value]*accessRec
	chanVC      map[*chanV][][]int // vector clocks attached to buffered items
	objVC       map[interface{}][]int
	switches    int
}

func (m *machine) ts() *threadsState {
	if m.thr == nil {
		main := &gthread{id: 0, resume: make(chan bool), vc: []int{1}, started: true}
		m.thr = &threadsState{threads: []*gthread{main}, cur: main, maxPreempt: 2,
			acc: map[*value]*accessRec{}, chanVC: map[*chanV][][]int{}, objVC: map[interface{}][]int{}}
		if v, ok := m.eng.params["preempt"]; ok {
			m.thr.maxPreempt = v
		}
	}
	return m.thr
}

func (m *machine) multi() bool { return m.thr != nil && len(m.thr.threads) > 1 }

func vcCopy(v []int) []int { return append([]int(nil), v...) }

func vcJoin(a, b []int) []int {
	for len(a) < len(b) {
		a = append(a, 0)
	}
	for i := range b {
		if b[i] > a[i] {
			a[i] = b[i]
		}
	}
	return a
}

func (t *gthread) tick() {
	for len(t.vc) <= t.id {
		t.vc = append(t.vc, 0)
	}
	t.vc[t.id]++
}

func vcAt(v []int, i int) int {
	if i < len(v) {
		return v[i]
	}
	return 0
}

// spawn starts a new interpreted goroutine.
func (m *machine) spawn(fr *frame, fn value, args []value, site ssa.Instruction) {
	ts := m.ts()
	parent := ts.cur
	parent.tick()
	t := &gthread{id: len(ts.threads), resume: make(chan bool), vc: vcCopy(parent.vc)}
	t.tick()
	ts.threads = append(ts.threads, t)
	go func() {
		run := <-t.resume
		t.started = true
		defer func() {
			r := recover()
			t.done = true
			if ts.shutting {
				return
			}
			if r != nil {
				if pe, ok := r.(pathEnd); ok && pe.status == "killed" {
					return
				}
				// a path-ending event in a non-main thread: hand it to the main thread
				ts.abortWith = r
				ts.cur = ts.threads[0]
				ts.threads[0].resume <- false
				return
			}
			// normal end: pass control on
			m.threadExit(t)
		}()
		if !run {
			panic(pathEnd{"killed", ""})
		}
		m.callValue(nil, fn, args, site)
	}()
	m.visibleOp("go")
}

// threadExit is called by a finishing non-main thread.
func (m *machine) threadExit(t *gthread) {
	ts := m.thr
	t.tick()
	ts.objVC[t] = vcCopy(t.vc)
	next := m.pickNext(nil)
	if next == nil {
		// nobody can run: the main thread is blocked forever
		ts.abortWith = pathEnd{"deadlock", "all goroutines are blocked (" + m.blockedSummary() + ")"}
		ts.cur = ts.threads[0]
		ts.threads[0].resume <- false
		return
	}
	ts.cur = next
	next.resume <- true
}

func (m *machine) blockedSummary() string {
	s := ""
	for _, t := range m.thr.threads {
		if !t.done && t.canRun != nil {
			s += fmt.Sprintf("g%d:%s ", t.id, t.what)
		}
	}
	return s
}

func (m *machine) runnable(t *gthread) bool {
	if t.done {
		return false
	}
	return t.canRun == nil || t.canRun()
}

// pickNext chooses the next thread to run among the runnable ones (cur, if
// given and runnable, is listed first; switching away from a runnable cur is a
// preemption and counts against the budget).
func (m *machine) pickNext(cur *gthread) *gthread {
	ts := m.thr
	var cands []*gthread
	if cur != nil && m.runnable(cur) {
		cands = append(cands, cur)
	}
	for _, t := range ts.threads {
		if t != cur && m.runnable(t) {
			cands = append(cands, t)
		}
	}
	if len(cands) == 0 {
		return nil
	}
	if cur != nil && cands[0] == cur && ts.preemptions >= ts.maxPreempt {
		cands = cands[:1]
	}
	k := 0
	if len(cands) > 1 {
		k = m.chooseN(len(cands), "schedule")
		// chooseN recorded a nondet; turn it into a schedule record below
		m.nondets = m.nondets[:len(m.nondets)-1]
	}
	if cur != nil && cands[0] == cur && k != 0 {
		ts.preemptions++
	}
	// every scheduling decision is part of the witness: the id of the thread that runs next
	m.nondets = append(m.nondets, nondetRec{Name: fmt.Sprintf("n%d_sched", len(m.nondets)), Term: m.ctx.BV(uint64(cands[k].id), 64), Kind: "sched"})
	return cands[k]
}

// switchTo transfers control from the current thread to next and waits until
// this thread is scheduled again.
func (m *machine) switchTo(next *gthread) {
	ts := m.thr
	me := ts.cur
	if next == me {
		return
	}
	ts.switches++
	ts.cur = next
	saveInstr, saveDepth := m.curInstr, m.depth
	next.resume <- true
	run := <-me.resume
	m.curInstr, m.depth = saveInstr, saveDepth
	if !run {
		if ts.abortWith != nil {
			panic(ts.abortWith)
		}
		panic(pathEnd{"killed", ""})
	}
}

// visibleOp is a scheduling point at which the current thread stays runnable.
func (m *machine) visibleOp(what string) {
	if !m.multi() {
		return
	}
	ts := m.thr
	ts.cur.tick()
	next := m.pickNext(ts.cur)
	if next != nil && next != ts.cur {
		m.switchTo(next)
	}
}

// handoff implements Go's channel semantics for a send while receivers are
// blocked: the value goes directly to the longest-waiting receiver, which then
// owns it even before it is scheduled again.
func (m *machine) handoff(ch *chanV, v value) bool {
	if !m.multi() {
		return false
	}
	var best *gthread
	for _, t := range m.thr.threads {
		if t.done || t.gotCh != nil {
			continue
		}
		for _, w := range t.waitRecv {
			if w == ch && (best == nil || t.waitSeq < best.waitSeq) {
				best = t
			}
		}
	}
	if best == nil {
		return false
	}
	best.gotCh = ch
	best.gotVal = copyVal(v)
	best.waitRecv = nil
	// happens-before: the send is ordered before the receive completes
	m.thr.cur.tick()
	best.vc = vcJoin(best.vc, m.thr.cur.vc)
	return true
}

// blockRecv parks the current goroutine as a receiver on chans; returns the
// channel and value handed over, or nil if it was woken for another reason.
func (m *machine) blockRecv(what string, chans []*chanV, ready func() bool) (*chanV, value, bool) {
	ts := m.ts()
	me := ts.cur
	ts.switches++
	me.waitRecv = chans
	me.waitSeq = ts.switches
	ok := m.blockOn(what, func() bool { return me.gotCh != nil || ready() })
	me.waitRecv = nil
	if me.gotCh != nil {
		ch, v := me.gotCh, me.gotVal
		me.gotCh, me.gotVal = nil, nil
		return ch, v, true
	}
	return nil, nil, ok
}

// blockOn parks the current thread until canRun holds; returns false when no
// thread at all can run (deadlock).
func (m *machine) blockOn(what string, canRun func() bool) bool {
	if !m.multi() {
		return false
	}
	ts := m.thr
	me := ts.cur
	me.canRun = canRun
	me.what = what
	if what != "join" {
		me.what = what + " @" + m.whereShort()
	}
	next := m.pickNext(nil)
	if next == nil {
		me.canRun = nil
		return false
	}
	if next != me {
		m.switchTo(next)
	}
	me.canRun = nil
	return true
}

// joinAll blocks the main thread until every other thread has finished.
func (m *machine) joinAll() {
	if !m.multi() {
		return
	}
	ts := m.thr
	allDone := func() bool {
		for _, t := range ts.threads[1:] {
			if !t.done {
				return false
			}
		}
		return true
	}
	for !allDone() {
		if !m.blockOn("join", allDone) {
			m.end("deadlock", "join: goroutines blocked forever ("+m.blockedSummary()+")")
		}
	}
	for _, t := range ts.threads[1:] {
		if v, ok := ts.objVC[t]; ok {
			ts.cur.vc = vcJoin(ts.cur.vc, v)
		}
	}
}

// shutdown releases every parked goroutine at the end of a path.
func (m *machine) shutdownThreads() {
	if m.thr == nil {
		return
	}
	ts := m.thr
	ts.shutting = true
	for _, t := range ts.threads[1:] {
		if !t.done {
			select {
			case t.resume <- false:
			default:
				// not parked on resume (it is the one that aborted): nothing to do
			}
		}
	}
}

// ---- happens-before ----

func (m *machine) hbRelease(obj interface{}) {
	if !m.multi() {
		return
	}
	ts := m.thr
	ts.cur.tick()
	ts.objVC[obj] = vcJoin(vcCopy(ts.objVC[obj]), ts.cur.vc)
}

func (m *machine) hbAcquire(obj interface{}) {
	if !m.multi() {
		return
	}
	ts := m.thr
	if v, ok := ts.objVC[obj]; ok {
		ts.cur.vc = vcJoin(ts.cur.vc, v)
	}
}

func (m *machine) hbChanSend(ch *chanV) {
	if m.thr == nil {
		return
	}
	ts := m.thr
	ts.cur.tick()
	ts.chanVC[ch] = append(ts.chanVC[ch], vcCopy(ts.cur.vc))
}

func (m *machine) hbChanRecv(ch *chanV) {
	if m.thr == nil {
		return
	}
	ts := m.thr
	q := ts.chanVC[ch]
	if len(q) > 0 {
		ts.cur.vc = vcJoin(ts.cur.vc, q[0])
		ts.chanVC[ch] = q[1:]
	}
}

// access records a read or write of a heap cell and reports a data race when
// it is not ordered with a conflicting earlier access.
func (m *machine) access(p *value, write bool) {
	if !m.multi() || p == nil {
		return
	}
	ts := m.thr
	t := ts.cur
	a := ts.acc[p]
	if a == nil {
		a = &accessRec{wTid: -1}
		ts.acc[p] = a
	}
	me := t.id
	myClock := vcAt(t.vc, me)
	if a.wTid >= 0 && a.wTid != me && a.wClock > vcAt(t.vc, a.wTid) {
		m.violate("race", "data-race", fmt.Sprintf("data race: %s at %s conflicts with write at %s (goroutines %d and %d)", rw(write), m.where(), a.wSite, me, a.wTid))
	}
	if write {
		for tid, c := range a.reads {
			if tid != me && c > vcAt(t.vc, tid) {
				m.violate("race", "data-race", fmt.Sprintf("data race: write at %s conflicts with read at %s (goroutines %d and %d)", m.where(), a.rSite[tid], me, tid))
			}
		}
		a.wTid, a.wClock, a.wSite = me, myClock, m.where()
		a.reads = nil
		a.rSite = nil
	} else {
		if a.reads == nil {
			a.reads = map[int]int{}
			a.rSite = map[int]string{}
		}
		a.reads[me] = myClock
		a.rSite[me] = m.where()
	}
}

func rw(w bool) string {
	if w {
		return "write"
	}
	return "read"
}

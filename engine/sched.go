package main

import "golang.org/x/tools/go/ssa"

// Sequential semantics for now: blocking operations that cannot proceed are
// deadlocks; goroutines are added by the scheduler extension.

func (m *machine) blockOn(what string, obj interface{}) bool { return false }

func (m *machine) visibleOp(what string) {}

func (m *machine) spawn(fr *frame, fn value, args []value, site ssa.Instruction) {
	m.unsupported("go statement at %s", m.where())
}

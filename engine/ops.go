package main

import (
	"fmt"
	"go/token"
	"go/types"
	"unicode/utf8"
	"unsafe"

	"golang.org/x/tools/go/ssa"
)

// ---------- memory ----------

func (m *machine) registerArray(a []value, base *Term) {
	if len(a) == 0 {
		return
	}
	if base == nil {
		base = m.ctx.BV(uint64(len(m.arrays)+1)<<20, 64)
	}
	m.arrays = append(m.arrays, arrInfo{arr: a[:len(a):cap(a)], base: base})
}

func (m *machine) findArray(p *value) (arrInfo, int, bool) {
	addr := ptrAddr(p)
	for i := len(m.arrays) - 1; i >= 0; i-- {
		a := m.arrays[i]
		full := a.arr[:cap(a.arr)]
		lo := ptrAddr(&full[0])
		hi := lo + uintptr(len(full))*valueSize
		if addr >= lo && addr < hi {
			return arrInfo{arr: full, base: a.base}, int((addr - lo) / valueSize), true
		}
	}
	return arrInfo{}, 0, false
}

func (m *machine) makeSlice(et types.Type, n, c int) []value {
	s := make([]value, c)
	if c > 0 {
		z := m.zero(et)
		if _, scalar := z.(*Term); scalar {
			for i := range s {
				s[i] = z
			}
		} else {
			s[0] = z
			for i := 1; i < c; i++ {
				s[i] = m.zero(et)
			}
		}
	}
	if w, _, ok := bvWidth(et); ok && w == 8 {
		m.registerArray(s, nil)
	}
	return s[:n]
}

// allocSize concretises an allocation size and checks it against the
// harness-declared allocation bound.
func (m *machine) allocSize(v value, what string) int {
	t := v.(*Term)
	if !t.IsConst() && m.allocMax > 0 {
		// is a size beyond the bound feasible?
		big := m.ctx.SLt(m.ctx.BV(uint64(m.allocMax), t.Width()), t)
		if t.Width() >= 40 && m.allocMax < 1<<32 {
			// prefer a witness whose size is unmistakable in a native replay
			huge := m.ctx.SLt(m.ctx.BV(1<<32, t.Width()), t)
			if m.chk(huge) == Sat {
				m.violate("alloc", "AllocBound", fmt.Sprintf("allocation size can exceed %d at %s", m.allocMax, m.where()))
			}
		}
		if t.Width() >= 16 {
			// ... or at least beyond the slack of the native measurement (8k+16384, harness/api.go)
			mid := m.ctx.SLt(m.ctx.BV(uint64(8*m.allocMax+16384+2048), t.Width()), t)
			if m.chk(mid) == Sat {
				m.violate("alloc", "AllocBound", fmt.Sprintf("allocation size can exceed %d at %s", m.allocMax, m.where()))
			}
		}
		if m.chk(big) != Unsat {
			m.violate("alloc", "AllocBound", fmt.Sprintf("allocation size can exceed %d at %s", m.allocMax, m.where()))
		}
	}
	n := m.concInt(v, what)
	if m.allocMax > 0 && int64(n) > m.allocMax {
		m.violate("alloc", "AllocBound", fmt.Sprintf("allocation of %d > bound %d at %s", n, m.allocMax, m.where()))
	}
	if n > m.eng.maxAlloc {
		m.end("limit", fmt.Sprintf("allocation of %d elements exceeds engine limit at %s", n, m.where()))
	}
	return n
}

func (m *machine) load(addr value) value {
	switch p := addr.(type) {
	case *value:
		if p == nil {
			m.rtPanic("invalid memory address or nil pointer dereference")
		}
		if m.thr != nil {
			m.access(p, false)
		}
		return copyVal(*p)
	case wordPtrV:
		return m.loadWord(p)
	case symElemPtr:
		return m.loadSym(p)
	}
	panic(fmt.Sprintf("load from %T", addr))
}

func (m *machine) store(addr value, v value) {
	switch p := addr.(type) {
	case *value:
		if p == nil {
			m.rtPanic("invalid memory address or nil pointer dereference")
		}
		if m.thr != nil {
			m.access(p, true)
		}
		assignInPlace(p, v)
	case wordPtrV:
		m.storeWord(p, v.(*Term))
	case symElemPtr:
		m.storeSym(p, v)
	default:
		panic(fmt.Sprintf("store to %T", addr))
	}
}

// assignInPlace stores v into *p keeping the identity of the cells of
// aggregates (field and element addresses taken earlier stay valid).
func assignInPlace(p *value, v value) {
	switch nv := v.(type) {
	case structure:
		if old, ok := (*p).(structure); ok && len(old) == len(nv) {
			for i := range nv {
				assignInPlace(&old[i], nv[i])
			}
			return
		}
	case array:
		if old, ok := (*p).(array); ok && len(old) == len(nv) {
			for i := range nv {
				assignInPlace(&old[i], nv[i])
			}
			return
		}
	}
	*p = copyVal(v)
}

func (m *machine) loadWord(p wordPtrV) value {
	if p.idx < 0 || p.idx+p.n > len(p.arr) {
		m.violate("panic", "unsafe-oob", fmt.Sprintf("unsafe word load outside object at %s", m.where()))
	}
	var t *Term
	for i := p.n - 1; i >= 0; i-- {
		b := p.arr[p.idx+i].(*Term)
		if t == nil {
			t = b
		} else {
			t = m.ctx.Concat(t, b)
		}
	}
	return t
}

func (m *machine) storeWord(p wordPtrV, v *Term) {
	if p.idx < 0 || p.idx+p.n > len(p.arr) {
		m.violate("panic", "unsafe-oob", fmt.Sprintf("unsafe word store outside object at %s", m.where()))
	}
	for i := 0; i < p.n; i++ {
		p.arr[p.idx+i] = m.ctx.Extract(v, 8*i+7, 8*i)
	}
}

func (m *machine) loadSym(p symElemPtr) value {
	n := len(p.arr)
	allConst := true
	for i := 0; i < n; i++ {
		e, ok := p.arr[i].(*Term)
		if !ok {
			// non-scalar elements: fall back to concretisation
			idx := int(m.concretize(p.idx, "index"))
			return copyVal(p.arr[idx])
		}
		if !e.IsConst() {
			allConst = false
		}
	}
	if allConst {
		// constant table: one comparison per run of equal values
		var res *Term
		i := n - 1
		for i >= 0 {
			e := p.arr[i].(*Term)
			j := i
			for j > 0 && p.arr[j-1].(*Term) == e {
				j--
			}
			// run [j..i] has value e
			if res == nil {
				res = e
			} else {
				res = m.ctx.Ite(m.ctx.ULe(p.idx, m.ctx.BV(uint64(i), 64)), e, res)
			}
			i = j - 1
		}
		return res
	}
	if n > 8 {
		// symbolic content and a symbolic index: fork over the index instead of
		// building nested selects
		idx := int(m.concretize(p.idx, "index"))
		return p.arr[idx]
	}
	var res *Term
	for i := n - 1; i >= 0; i-- {
		e := p.arr[i].(*Term)
		if res == nil {
			res = e
		} else {
			res = m.ctx.Ite(m.ctx.Eq(p.idx, m.ctx.BV(uint64(i), 64)), e, res)
		}
	}
	return res
}

func (m *machine) storeSym(p symElemPtr, v value) {
	t, ok := v.(*Term)
	if !ok || len(p.arr) > 8 {
		idx := int(m.concretize(p.idx, "index"))
		p.arr[idx] = copyVal(v)
		return
	}
	for i := range p.arr {
		old := p.arr[i].(*Term)
		p.arr[i] = m.ctx.Ite(m.ctx.Eq(p.idx, m.ctx.BV(uint64(i), 64)), t, old)
	}
}

func (m *machine) idx64(v value, typ types.Type) *Term {
	var t *Term
	switch x := v.(type) {
	case *Term:
		t = x
	case uptrV:
		t = x.t
	}
	if t.Width() < 64 {
		if _, signed, _ := bvWidth(typ); signed {
			return m.ctx.SExt(t, 64)
		}
		return m.ctx.ZExt(t, 64)
	}
	return t
}

// boundsCheck checks 0 <= idx < n; panics (target) if violated.
func (m *machine) boundsCheck(idx *Term, n int) {
	ok := m.ctx.ULt(idx, m.ctx.BV(uint64(n), 64))
	if !m.decide(ok) {
		m.rtPanic(fmt.Sprintf("index out of range [%s] with length %d", idxStr(idx), n))
	}
}

func idxStr(t *Term) string {
	if t.IsConst() {
		return fmt.Sprint(t.SConst())
	}
	return "sym"
}

func (m *machine) indexAddr(x value, idxv value, ityp types.Type) value {
	idx := m.idx64(idxv, ityp)
	var arr []value
	switch x := x.(type) {
	case []value:
		arr = x
	case wordSliceV:
		m.boundsCheck(idx, x.count)
		i := 0
		if idx.IsConst() {
			i = int(idx.cval)
		} else {
			i = int(m.concretize(idx, "index"))
		}
		return wordPtrV{arr: x.arr, idx: x.idx + i*x.n, n: x.n}
	case *value:
		if x == nil {
			m.rtPanic("invalid memory address or nil pointer dereference")
		}
		a, ok := (*x).(array)
		if !ok {
			m.unsupported("indexing opaque array at %s", m.where())
		}
		arr = []value(a)
	default:
		panic(fmt.Sprintf("indexAddr of %T", x))
	}
	m.boundsCheck(idx, len(arr))
	if idx.IsConst() {
		return &arr[int(idx.cval)]
	}
	if len(arr) > 0 {
		if _, scalar := arr[0].(*Term); scalar && len(arr) <= 512 {
			return symElemPtr{arr: arr, idx: idx}
		}
	}
	i := int(m.concretize(idx, "index"))
	return &arr[i]
}

func (m *machine) index(x value, idxv value, ityp types.Type) value {
	idx := m.idx64(idxv, ityp)
	switch x := x.(type) {
	case array:
		m.boundsCheck(idx, len(x))
		if idx.IsConst() {
			return x[int(idx.cval)]
		}
		return m.loadSym(symElemPtr{arr: []value(x), idx: idx})
	case strV:
		m.boundsCheck(idx, x.Len())
		if idx.IsConst() {
			return m.strAt(x, int(idx.cval))
		}
		bs := m.strBytes(x)
		arr := make([]value, len(bs))
		for i, b := range bs {
			arr[i] = b
		}
		return m.loadSym(symElemPtr{arr: arr, idx: idx})
	}
	panic(fmt.Sprintf("index of %T", x))
}

func (m *machine) slice(instr *ssa.Slice, x, lo, hi, max value) value {
	var length, capacity int
	switch x := x.(type) {
	case strV:
		length = x.Len()
		capacity = length
	case []value:
		length = len(x)
		capacity = cap(x)
	case *value:
		if x == nil {
			m.rtPanic("invalid memory address or nil pointer dereference")
		}
		a := (*x).(array)
		length = len(a)
		capacity = len(a)
	default:
		panic(fmt.Sprintf("slice of %T", x))
	}
	l := 0
	h := length
	mx := capacity
	// Go checks: 0 <= lo <= hi <= max <= cap
	var lt, ht, mt *Term
	if lo != nil {
		lt = m.idx64(lo, instr.Low.Type())
	}
	if hi != nil {
		ht = m.idx64(hi, instr.High.Type())
	}
	if max != nil {
		mt = m.idx64(max, instr.Max.Type())
	}
	limit := capacity
	if _, isStr := x.(strV); isStr {
		limit = length
	}
	if mt != nil {
		if !m.decide(m.ctx.ULe(mt, m.ctx.BV(uint64(limit), 64))) {
			m.rtPanic("slice bounds out of range [::max] with capacity")
		}
		mx = int(m.concretize(mt, "slice max"))
		limit = mx
	}
	if ht != nil {
		if !m.decide(m.ctx.ULe(ht, m.ctx.BV(uint64(limit), 64))) {
			m.rtPanic(fmt.Sprintf("slice bounds out of range [:%s] with capacity %d", idxStr(ht), limit))
		}
		h = int(m.concretize(ht, "slice high"))
	}
	if lt != nil {
		if !m.decide(m.ctx.ULe(lt, m.ctx.BV(uint64(h), 64))) {
			m.rtPanic(fmt.Sprintf("slice bounds out of range [%s:%d]", idxStr(lt), h))
		}
		l = int(m.concretize(lt, "slice low"))
	}
	switch x := x.(type) {
	case strV:
		return x.slice(l, h)
	case []value:
		if x == nil {
			return []value(nil)
		}
		return x[l:h:mx]
	case *value:
		a := (*x).(array)
		return []value(a)[l:h:mx]
	}
	panic("unreachable")
}

// ---------- maps ----------

func (m *machine) equalsT(x, y value) *Term {
	switch x := x.(type) {
	case *Term:
		return m.ctx.Eq(x, y.(*Term))
	case strV:
		return m.strEq(x, y.(strV))
	case *value:
		return m.ctx.Bool(x == y.(*value))
	case *mapV:
		return m.ctx.Bool(x == y.(*mapV))
	case *chanV:
		return m.ctx.Bool(x == y.(*chanV))
	case iface:
		yi := y.(iface)
		if x.t == nil || yi.t == nil {
			return m.ctx.Bool(x.t == nil && yi.t == nil)
		}
		if !types.Identical(x.t, yi.t) {
			return m.ctx.False
		}
		return m.equalsT(x.v, yi.v)
	case structure:
		ys := y.(structure)
		r := m.ctx.True
		for i := range x {
			r = m.ctx.And(r, m.equalsT(x[i], ys[i]))
		}
		return r
	case array:
		ya := y.(array)
		r := m.ctx.True
		for i := range x {
			r = m.ctx.And(r, m.equalsT(x[i], ya[i]))
		}
		return r
	case *ssa.Function:
		yf, _ := y.(*ssa.Function)
		return m.ctx.Bool(x == yf)
	case *closure:
		yc, _ := y.(*closure)
		return m.ctx.Bool(x == yc)
	case nil:
		return m.ctx.Bool(y == nil)
	case []value:
		// only comparison with nil is legal
		ys := y.([]value)
		return m.ctx.Bool(x == nil && ys == nil || (ys != nil && x != nil && len(x) == 0 && len(ys) == 0))
	case unsafePtrV:
		yu := y.(unsafePtrV)
		return m.ctx.Bool(x.p == yu.p && x.idx == yu.idx)
	case *opaque:
		yo, _ := y.(*opaque)
		return m.ctx.Bool(x == yo)
	case float64:
		return m.ctx.Bool(x == y.(float64))
	}
	panic(fmt.Sprintf("equals: unsupported %T", x))
}

func (m *machine) strEq(x, y strV) *Term {
	if x.Len() != y.Len() {
		return m.ctx.False
	}
	if x.IsConcrete() && y.IsConcrete() {
		return m.ctx.Bool(x.s == y.s)
	}
	r := m.ctx.True
	for i := 0; i < x.Len(); i++ {
		r = m.ctx.And(r, m.ctx.Eq(m.strAt(x, i), m.strAt(y, i)))
		if r == m.ctx.False {
			break
		}
	}
	return r
}

// mapFind returns the index of key in mp, forking on symbolic equalities.
func (m *machine) mapFind(mp *mapV, key value) int {
	for i, k := range mp.keys {
		if m.decide(m.equalsT(k, key)) {
			return i
		}
	}
	return -1
}

func (m *machine) lookup(instr *ssa.Lookup, x, key value) value {
	switch x := x.(type) {
	case strV:
		return m.index(x, key, instr.Index.Type())
	case *mapV:
		var vt types.Type
		if x != nil {
			vt = x.vt
		} else {
			vt = instr.X.Type().Underlying().(*types.Map).Elem()
		}
		var v value
		ok := m.ctx.False
		if x != nil {
			// scalar-valued maps with a symbolic key: ite chain, no fork
			if kt, isT := key.(*Term); isT && !kt.IsConst() && len(x.vals) > 0 {
				if _, sc := x.vals[0].(*Term); sc {
					res := m.zero(vt).(*Term)
					for i := len(x.keys) - 1; i >= 0; i-- {
						e := m.ctx.Eq(x.keys[i].(*Term), kt)
						res = m.ctx.Ite(e, x.vals[i].(*Term), res)
						ok = m.ctx.Or(ok, e)
					}
					if instr.CommaOk {
						return tuple{res, ok}
					}
					return res
				}
			}
			if i := m.mapFind(x, key); i >= 0 {
				v = copyVal(x.vals[i])
				ok = m.ctx.True
			}
		}
		if v == nil && ok == m.ctx.False {
			v = m.zero(vt)
		}
		if instr.CommaOk {
			return tuple{v, ok}
		}
		return v
	}
	panic(fmt.Sprintf("lookup in %T", x))
}

func (m *machine) mapUpdate(mv, key, val value) {
	mp := mv.(*mapV)
	if mp == nil {
		m.rtPanic("assignment to entry in nil map")
	}
	if i := m.mapFind(mp, key); i >= 0 {
		mp.vals[i] = copyVal(val)
		return
	}
	mp.keys = append(mp.keys, copyVal(key))
	mp.vals = append(mp.vals, copyVal(val))
}

func (m *machine) mapDelete(mp *mapV, key value) {
	if mp == nil {
		return
	}
	if i := m.mapFind(mp, key); i >= 0 {
		mp.keys = append(mp.keys[:i:i], mp.keys[i+1:]...)
		mp.vals = append(mp.vals[:i:i], mp.vals[i+1:]...)
	}
}

func (m *machine) rangeIter(x value) value {
	switch x := x.(type) {
	case *mapV:
		if x == nil {
			return &mapIter{m: &mapV{}}
		}
		// iterate over a snapshot of the keys
		snap := &mapV{keys: append([]value(nil), x.keys...), vals: append([]value(nil), x.vals...)}
		return &mapIter{m: snap}
	case strV:
		return &strIter{s: x}
	}
	panic(fmt.Sprintf("range over %T", x))
}

func (m *machine) next(instr *ssa.Next, it value) value {
	switch it := it.(type) {
	case *mapIter:
		if it.i >= len(it.m.keys) {
			return tuple{m.ctx.False, nil, nil}
		}
		k, v := it.m.keys[it.i], it.m.vals[it.i]
		it.i++
		return tuple{m.ctx.True, k, copyVal(v)}
	case *strIter:
		if it.i >= it.s.Len() {
			return tuple{m.ctx.False, m.ctx.BV(0, 64), m.ctx.BV(0, 32)}
		}
		// decode one rune: only ASCII / concrete handled
		b := m.strAt(it.s, it.i)
		if !b.IsConst() {
			if !m.decide(m.ctx.ULt(b, m.ctx.BV(0x80, 8))) {
				return m.nextRuneSym(it)
			}
			i := it.i
			it.i++
			return tuple{m.ctx.True, m.ctx.BV(uint64(i), 64), m.ctx.ZExt(b, 32)}
		}
		if it.s.IsConcrete() {
			rest := it.s.s[it.i:]
			r, w := utf8.DecodeRuneInString(rest)
			i := it.i
			it.i += w
			return tuple{m.ctx.True, m.ctx.BV(uint64(i), 64), m.ctx.BV(uint64(r), 32)}
		}
		if b.cval < 0x80 {
			i := it.i
			it.i++
			return tuple{m.ctx.True, m.ctx.BV(uint64(i), 64), m.ctx.BV(b.cval, 32)}
		}
		return m.nextRuneSym(it)
	}
	panic(fmt.Sprintf("next on %T", it))
}

// nextRuneSym decodes the rune at it.i of a (partly) symbolic string by executing
// the real unicode/utf8.DecodeRuneInString from its SSA (forking on the byte classes).
func (m *machine) nextRuneSym(it *strIter) value {
	fn := m.eng.utf8DecodeFn()
	if fn == nil {
		m.unsupported("range over symbolic non-ASCII string (unicode/utf8 not loaded) at %s", m.where())
	}
	hi := it.i + 4
	if hi > it.s.Len() {
		hi = it.s.Len()
	}
	res := m.callFunction(nil, fn, []value{it.s.slice(it.i, hi)}, nil).(tuple)
	r := res[0].(*Term)
	size := int(m.concretize(res[1].(*Term), "rune width"))
	i := it.i
	it.i += size
	if r.Width() != 32 {
		r = m.ctx.ZExt(r, 32)
	}
	return tuple{m.ctx.True, m.ctx.BV(uint64(i), 64), r}
}

// ---------- type assertions ----------

func (m *machine) typeAssert(instr *ssa.TypeAssert, x iface) value {
	var v value
	ok := false
	if x.t != nil {
		if it, isIface := instr.AssertedType.Underlying().(*types.Interface); isIface {
			if x.t == rtErrType {
				ok = it.NumMethods() == 0 || (it.NumMethods() == 1 && it.Method(0).Name() == "Error")
			} else {
				ok = types.Implements(x.t, it)
				if !ok {
					// methods on pointer receiver are in the method set of the pointer type only
					ok = types.AssertableTo(it, x.t) && types.Implements(x.t, it)
				}
			}
			if ok {
				v = x
			}
		} else if types.Identical(x.t, instr.AssertedType) {
			ok = true
			v = x.v
		}
	}
	if instr.CommaOk {
		if !ok {
			v = m.zero(instr.AssertedType)
		}
		return tuple{v, m.ctx.Bool(ok)}
	}
	if !ok {
		tn := "nil"
		if x.t != nil {
			tn = typeName(x.t)
		}
		m.rtPanic(fmt.Sprintf("interface conversion: interface is %s, not %s", tn, typeName(instr.AssertedType)))
	}
	return v
}

// ---------- unary / binary ----------

func (m *machine) unop(instr *ssa.UnOp, x value) value {
	switch instr.Op {
	case token.ARROW:
		v, ok := m.chanRecv(x, instr.X.Type().Underlying().(*types.Chan).Elem())
		if instr.CommaOk {
			return tuple{v, m.ctx.Bool(ok)}
		}
		return v
	case token.MUL:
		return m.load(x)
	case token.SUB:
		switch x := x.(type) {
		case *Term:
			return m.ctx.Neg(x)
		case float64:
			return -x
		}
	case token.NOT:
		return m.ctx.Not(x.(*Term))
	case token.XOR:
		return m.ctx.BNot(x.(*Term))
	}
	panic(fmt.Sprintf("unop %s on %T", instr.Op, x))
}

func (m *machine) binop(op token.Token, t types.Type, x, y value) value {
	c := m.ctx
	switch xv := x.(type) {
	case *Term:
		if xv.IsBool() {
			yv := y.(*Term)
			switch op {
			case token.EQL:
				return c.Eq(xv, yv)
			case token.NEQ:
				return c.Not(c.Eq(xv, yv))
			case token.AND, token.LAND:
				return c.And(xv, yv)
			case token.OR, token.LOR:
				return c.Or(xv, yv)
			}
			panic("bool binop " + op.String())
		}
		_, signed, _ := bvWidth(t)
		w := xv.Width()
		if op == token.SHL || op == token.SHR {
			var cnt *Term
			switch yv := y.(type) {
			case *Term:
				cnt = yv
			case uptrV:
				cnt = yv.t
			}
			// negative signed shift counts panic
			// (y's static type is not passed; a count with its top bit set and
			// >= w behaves as a huge count either way, except for the panic,
			// which we do not model: Go vet-level programs never do that here)
			var sat *Term
			if cnt.Width() > w {
				big := c.ULe(c.BV(uint64(w), cnt.Width()), cnt)
				sat = c.Ite(big, c.BV(uint64(w), w), c.Extract(cnt, w-1, 0))
			} else {
				sat = c.ZExt(cnt, w)
			}
			if op == token.SHL {
				return c.Shl(xv, sat)
			}
			if signed {
				return c.AShr(xv, sat)
			}
			return c.LShr(xv, sat)
		}
		var yv *Term
		switch yy := y.(type) {
		case *Term:
			yv = yy
		case uptrV:
			yv = yy.t
		default:
			panic(fmt.Sprintf("binop %s: rhs %T", op, y))
		}
		switch op {
		case token.ADD:
			return c.Add(xv, yv)
		case token.SUB:
			return c.Sub(xv, yv)
		case token.MUL:
			return c.Mul(xv, yv)
		case token.QUO, token.REM:
			if m.decide(c.Eq(yv, c.BV(0, w))) {
				m.rtPanic("integer divide by zero")
			}
			if op == token.QUO {
				if signed {
					return c.SDiv(xv, yv)
				}
				return c.UDiv(xv, yv)
			}
			if signed {
				return c.SRem(xv, yv)
			}
			return c.URem(xv, yv)
		case token.AND:
			return c.BAnd(xv, yv)
		case token.OR:
			return c.BOr(xv, yv)
		case token.XOR:
			return c.BXor(xv, yv)
		case token.AND_NOT:
			return c.BAnd(xv, c.BNot(yv))
		case token.EQL:
			return c.Eq(xv, yv)
		case token.NEQ:
			return c.Not(c.Eq(xv, yv))
		case token.LSS:
			if signed {
				return c.SLt(xv, yv)
			}
			return c.ULt(xv, yv)
		case token.LEQ:
			if signed {
				return c.SLe(xv, yv)
			}
			return c.ULe(xv, yv)
		case token.GTR:
			if signed {
				return c.SLt(yv, xv)
			}
			return c.ULt(yv, xv)
		case token.GEQ:
			if signed {
				return c.SLe(yv, xv)
			}
			return c.ULe(yv, xv)
		}
	case uptrV:
		// pointer arithmetic keeps provenance when the offset is concrete
		var yt *Term
		switch yy := y.(type) {
		case *Term:
			yt = yy
		case uptrV:
			yt = yy.t
		}
		switch op {
		case token.ADD:
			if yt.IsConst() {
				return uptrV{t: c.Add(xv.t, yt), arr: xv.arr, idx: xv.idx + int(yt.SConst())}
			}
			off := m.concretize(yt, "pointer offset")
			return uptrV{t: c.Add(xv.t, c.BV(off, 64)), arr: xv.arr, idx: xv.idx + int(int64(off))}
		case token.SUB:
			if yt.IsConst() {
				return uptrV{t: c.Sub(xv.t, yt), arr: xv.arr, idx: xv.idx - int(yt.SConst())}
			}
		}
		return m.binop(op, t, xv.t, yt)
	case strV:
		yv := y.(strV)
		switch op {
		case token.ADD:
			if xv.IsConcrete() && yv.IsConcrete() {
				return strV{s: xv.s + yv.s}
			}
			return mkStr(append(append([]*Term(nil), m.strBytes(xv)...), m.strBytes(yv)...))
		case token.EQL:
			return m.strEq(xv, yv)
		case token.NEQ:
			return c.Not(m.strEq(xv, yv))
		case token.LSS, token.LEQ, token.GTR, token.GEQ:
			cmp := m.strCompare(xv, yv)
			switch op {
			case token.LSS:
				return c.Bool(cmp < 0)
			case token.LEQ:
				return c.Bool(cmp <= 0)
			case token.GTR:
				return c.Bool(cmp > 0)
			default:
				return c.Bool(cmp >= 0)
			}
		}
	case float64:
		yv := y.(float64)
		switch op {
		case token.ADD:
			return xv + yv
		case token.SUB:
			return xv - yv
		case token.MUL:
			return xv * yv
		case token.QUO:
			return xv / yv
		case token.EQL:
			return c.Bool(xv == yv)
		case token.NEQ:
			return c.Bool(xv != yv)
		case token.LSS:
			return c.Bool(xv < yv)
		case token.LEQ:
			return c.Bool(xv <= yv)
		case token.GTR:
			return c.Bool(xv > yv)
		case token.GEQ:
			return c.Bool(xv >= yv)
		}
	}
	switch op {
	case token.EQL:
		return m.equalsT(x, y)
	case token.NEQ:
		return c.Not(m.equalsT(x, y))
	}
	panic(fmt.Sprintf("binop %s on %T, %T at %s", op, x, y, m.where()))
}

// strCompare compares lexicographically, forking on symbolic bytes.
func (m *machine) strCompare(x, y strV) int {
	n := x.Len()
	if y.Len() < n {
		n = y.Len()
	}
	for i := 0; i < n; i++ {
		a, b := m.strAt(x, i), m.strAt(y, i)
		if m.decide(m.ctx.Eq(a, b)) {
			continue
		}
		if m.decide(m.ctx.ULt(a, b)) {
			return -1
		}
		return 1
	}
	switch {
	case x.Len() < y.Len():
		return -1
	case x.Len() > y.Len():
		return 1
	}
	return 0
}

// ---------- conversions ----------

func (m *machine) conv(tdst, tsrc types.Type, x value) value {
	c := m.ctx
	ud := tdst.Underlying()
	us := tsrc.Underlying()
	// unsafe.Pointer conversions
	if isUnsafePtr(ud) {
		switch xv := x.(type) {
		case *value:
			return unsafePtrV{p: xv}
		case uptrV:
			if xv.arr == nil {
				m.unsupported("uintptr without provenance converted to pointer at %s", m.where())
			}
			return unsafePtrV{arr: xv.arr, idx: xv.idx}
		case unsafePtrV:
			return xv
		case wordPtrV:
			return unsafePtrV{arr: xv.arr, idx: xv.idx}
		case *Term:
			m.unsupported("integer converted to unsafe.Pointer at %s", m.where())
		}
	}
	if isUnsafePtr(us) {
		xv := x.(unsafePtrV)
		switch d := ud.(type) {
		case *types.Basic: // uintptr
			if xv.arr == nil && xv.p != nil {
				ai, idx, ok := m.findArray(xv.p)
				if !ok {
					// pointer to a cell holding an array value?
					if a, isArr := (*xv.p).(array); isArr && len(a) > 0 {
						ai2, idx2, ok2 := m.findArray(&a[0])
						if ok2 {
							return uptrV{t: c.Add(ai2.base, c.BV(uint64(idx2), 64)), arr: ai2.arr, idx: idx2}
						}
					}
					m.unsupported("pointer without known backing array converted to uintptr at %s", m.where())
				}
				return uptrV{t: c.Add(ai.base, c.BV(uint64(idx), 64)), arr: ai.arr, idx: idx}
			}
			if xv.arr != nil {
				ai, idx0, ok := m.findArray(&xv.arr[0])
				if !ok {
					m.unsupported("unknown backing array at %s", m.where())
				}
				return uptrV{t: c.Add(ai.base, c.BV(uint64(idx0+xv.idx), 64)), arr: ai.arr, idx: idx0 + xv.idx}
			}
			return uptrV{t: c.BV(0, 64)}
		case *types.Pointer:
			et := d.Elem().Underlying()
			if w, _, ok := bvWidth(et); ok && w > 8 {
				// word view over bytes
				if xv.arr != nil {
					return wordPtrV{arr: xv.arr, idx: xv.idx, n: w / 8}
				}
				if xv.p != nil {
					if a, isArr := (*xv.p).(array); isArr {
						return wordPtrV{arr: []value(a), idx: 0, n: w / 8}
					}
					ai, idx, ok := m.findArray(xv.p)
					if ok {
						return wordPtrV{arr: ai.arr, idx: idx, n: w / 8}
					}
				}
				m.unsupported("unsafe cast to *%s of unknown object at %s", et, m.where())
			}
			if xv.p != nil {
				return xv.p
			}
			if xv.arr != nil {
				return &xv.arr[xv.idx]
			}
			return (*value)(nil)
		}
	}
	switch xv := x.(type) {
	case uptrV:
		// uintptr -> other integer: drop provenance
		if w, _, ok := bvWidth(ud); ok {
			if b, isB := ud.(*types.Basic); isB && b.Kind() == types.Uintptr {
				return xv
			}
			return c.ZExt(xv.t, w)
		}
	case *Term:
		if wd, _, ok := bvWidth(ud); ok {
			_, ssigned, _ := bvWidth(us)
			ws := xv.Width()
			switch {
			case wd == ws:
				return xv
			case wd < ws:
				return c.Extract(xv, wd-1, 0)
			case ssigned:
				return c.SExt(xv, wd)
			default:
				return c.ZExt(xv, wd)
			}
		}
		if isString(ud) {
			// string(rune)
			r := m.concretize(xv, "rune to string")
			return strV{s: string(rune(sext64(r, xv.Width())))}
		}
		if isFloat(ud) {
			if xv.IsConst() {
				_, ssigned, _ := bvWidth(us)
				if ssigned {
					return float64(xv.SConst())
				}
				return float64(xv.cval)
			}
			m.unsupported("symbolic int to float at %s", m.where())
		}
	case strV:
		if isString(ud) {
			return xv
		}
		if sl, ok := ud.(*types.Slice); ok {
			if w, _, ok := bvWidth(sl.Elem()); ok && w == 8 {
				bs := m.strBytes(xv)
				out := make([]value, len(bs))
				for i, b := range bs {
					out[i] = b
				}
				m.registerArray(out, nil)
				return out
			}
			// []rune
			if xv.IsConcrete() {
				var out []value
				for _, r := range xv.s {
					out = append(out, c.BV(uint64(r), 32))
				}
				return out
			}
			m.unsupported("[]rune of symbolic string")
		}
	case []value:
		if isString(ud) {
			bs := make([]*Term, len(xv))
			for i, b := range xv {
				bs[i] = b.(*Term)
			}
			if len(bs) > 0 && bs[0].Width() == 32 {
				m.unsupported("string([]rune)")
			}
			return mkStr(bs)
		}
		return xv
	case float64:
		if wd, signed, ok := bvWidth(ud); ok {
			if signed {
				return c.BV(uint64(int64(xv)), wd)
			}
			return c.BV(uint64(xv), wd)
		}
		if isFloat(ud) {
			return xv
		}
	case *value, *mapV, *chanV, structure, array, iface, *closure, *ssa.Function, nil, wordPtrV:
		return x
	}
	panic(fmt.Sprintf("conv: unsupported %s <- %s (%T) at %s", tdst, tsrc, x, m.where()))
}

// ---------- builtins ----------

func (m *machine) callBuiltin(caller *frame, fn *ssa.Builtin, args []value, site ssa.Instruction) value {
	c := m.ctx
	switch fn.Name() {
	case "append":
		if len(args) == 1 {
			return args[0]
		}
		dst := args[0].([]value)
		var src []value
		switch s := args[1].(type) {
		case strV:
			for _, b := range m.strBytes(s) {
				src = append(src, b)
			}
		case []value:
			src = s
		}
		if len(src) == 0 {
			return dst
		}
		if m.allocMax > 0 && int64(len(dst)+len(src)) > m.allocMax && len(dst)+len(src) > cap(dst) {
			m.violate("alloc", "AllocBound", fmt.Sprintf("append grows to %d > bound %d at %s", len(dst)+len(src), m.allocMax, m.where()))
		}
		grown := len(dst)+len(src) > cap(dst)
		var res []value
		if grown {
			// model Go's growth: at least double for small slices
			nc := 2 * cap(dst)
			if nc < len(dst)+len(src) {
				nc = len(dst) + len(src)
			}
			res = make([]value, len(dst), nc)
			copy(res, dst)
		} else {
			res = dst
		}
		for _, e := range src {
			res = append(res, copyVal(e))
		}
		if grown && len(res) > 0 {
			if t, ok := res[0].(*Term); ok && t.Width() == 8 {
				// fill spare capacity with zero bytes so that later reslicing sees terms
				full := res[:cap(res)]
				for i := len(res); i < len(full); i++ {
					full[i] = c.BV(0, 8)
				}
				m.registerArray(full, nil)
			} else {
				full := res[:cap(res)]
				et := site.(*ssa.Call).Type().Underlying().(*types.Slice).Elem()
				for i := len(res); i < len(full); i++ {
					full[i] = m.zero(et)
				}
			}
		}
		return res
	case "copy":
		dst := args[0].([]value)
		switch s := args[1].(type) {
		case strV:
			n := len(dst)
			if s.Len() < n {
				n = s.Len()
			}
			for i := 0; i < n; i++ {
				dst[i] = m.strAt(s, i)
			}
			return c.BV(uint64(n), 64)
		case []value:
			n := len(dst)
			if len(s) < n {
				n = len(s)
			}
			// overlapping copies behave like memmove; elements are immutable
			// scalars or deep-copied aggregates
			tmp := make([]value, n)
			for i := 0; i < n; i++ {
				tmp[i] = copyVal(s[i])
			}
			for i := 0; i < n; i++ {
				assignInPlace(&dst[i], tmp[i])
			}
			return c.BV(uint64(n), 64)
		}
	case "len":
		switch x := args[0].(type) {
		case strV:
			return c.BV(uint64(x.Len()), 64)
		case []value:
			return c.BV(uint64(len(x)), 64)
		case wordSliceV:
			return c.BV(uint64(x.count), 64)
		case array:
			return c.BV(uint64(len(x)), 64)
		case *value:
			return c.BV(uint64(len((*x).(array))), 64)
		case *mapV:
			if x == nil {
				return c.BV(0, 64)
			}
			return c.BV(uint64(len(x.keys)), 64)
		case *chanV:
			if x == nil {
				return c.BV(0, 64)
			}
			return c.BV(uint64(len(x.buf)), 64)
		}
	case "cap":
		switch x := args[0].(type) {
		case []value:
			return c.BV(uint64(cap(x)), 64)
		case array:
			return c.BV(uint64(len(x)), 64)
		case *value:
			return c.BV(uint64(len((*x).(array))), 64)
		case *chanV:
			if x == nil {
				return c.BV(0, 64)
			}
			return c.BV(uint64(x.cap), 64)
		}
	case "delete":
		m.mapDelete(args[0].(*mapV), args[1])
		return nil
	case "panic":
		panic(&targetPanic{v: args[0], site: m.where()})
	case "recover":
		return m.doRecover(caller)
	case "print", "println":
		return nil
	case "min", "max":
		res := args[0]
		sig := site.(*ssa.Call).Type()
		for _, a := range args[1:] {
			op := token.LSS
			if fn.Name() == "max" {
				op = token.GTR
			}
			lt := m.binop(op, sig, a, res).(*Term)
			if rt, ok := res.(*Term); ok {
				res = c.Ite(lt, a.(*Term), rt)
			} else if m.decide(lt) {
				res = a
			}
		}
		return res
	case "clear":
		switch x := args[0].(type) {
		case *mapV:
			if x != nil {
				x.keys, x.vals = nil, nil
			}
		case []value:
			if len(x) > 0 {
				et := site.(*ssa.Call).Call.Args[0].Type().Underlying().(*types.Slice).Elem()
				for i := range x {
					x[i] = m.zero(et)
				}
			}
		}
		return nil
	case "ssa:wrapnilchk":
		recv := args[0]
		if p, ok := recv.(*value); ok && p == nil {
			m.rtPanic("value method called using nil pointer")
		}
		return recv
	case "String": // unsafe.String(ptr *byte, len)
		p := args[0].(*value)
		n := m.concInt(args[1], "unsafe.String len")
		if n == 0 {
			return strV{}
		}
		ai, idx, ok := m.findArray(p)
		if !ok {
			m.unsupported("unsafe.String of unknown array")
		}
		bs := make([]*Term, n)
		for i := 0; i < n; i++ {
			bs[i] = ai.arr[idx+i].(*Term)
		}
		return mkStr(bs)
	case "SliceData":
		s := args[0].([]value)
		if cap(s) == 0 {
			return (*value)(nil)
		}
		return &s[:1][0]
	case "close":
		ch, _ := args[0].(*chanV)
		if ch == nil {
			panic(&targetPanic{v: m.rtErr("close of nil channel"), site: m.where()})
		}
		if ch.closed {
			panic(&targetPanic{v: m.rtErr("close of closed channel"), site: m.where()})
		}
		m.hbRelease(ch)
		ch.closed = true
		return nil
	case "StringData":
		s := args[0].(strV)
		if s.Len() == 0 {
			return (*value)(nil)
		}
		bs := m.strBytes(s)
		out := make([]value, len(bs))
		for i, b := range bs {
			out[i] = b
		}
		m.registerArray(out, nil)
		return &out[0]
	case "Slice": // unsafe.Slice(ptr, len)
		if wp, ok := args[0].(wordPtrV); ok {
			n := m.concInt(args[1], "unsafe.Slice len")
			if n < 0 || wp.idx+n*wp.n > len(wp.arr) {
				m.unsupported("unsafe.Slice of words beyond the backing array at %s", m.where())
			}
			return wordSliceV{arr: wp.arr, idx: wp.idx, n: wp.n, count: n}
		}
		p := args[0].(*value)
		n := m.concInt(args[1], "unsafe.Slice len")
		if p == nil {
			return []value(nil)
		}
		ai, idx, ok := m.findArray(p)
		if !ok {
			m.unsupported("unsafe.Slice of unknown array")
		}
		return ai.arr[idx : idx+n : idx+n]
	}
	panic(fmt.Sprintf("unsupported builtin %s(%T...) at %s", fn.Name(), args[0], m.where()))
}

func (m *machine) doRecover(caller *frame) value {
	if caller != nil && !caller.panicking && caller.caller != nil && caller.caller.panicking {
		caller.caller.panicking = false
		p := caller.caller.panicVal
		caller.caller.panicVal = nil
		if p != nil {
			if iv, ok := p.v.(iface); ok {
				return iv
			}
			return iface{t: types.Typ[types.String], v: p.v}
		}
	}
	return iface{}
}

// ---------- channels (sequential semantics; threads added in sched.go) ----------

func (m *machine) chanSend(chv value, v value) {
	ch := chv.(*chanV)
	if ch == nil {
		m.end("deadlock", "send on nil channel at "+m.where())
	}
	if ch.closed {
		panic(&targetPanic{v: m.rtErr("send on closed channel"), site: m.where()})
	}
	for len(ch.buf) >= ch.cap {
		if !m.blockOn("chan send", func() bool { return len(ch.buf) < ch.cap || ch.closed }) {
			m.end("deadlock", "send on full channel at "+m.where())
		}
		if ch.closed {
			panic(&targetPanic{v: m.rtErr("send on closed channel"), site: m.where()})
		}
	}
	if len(ch.buf) == 0 && m.handoff(ch, v) {
		return
	}
	ch.buf = append(ch.buf, copyVal(v))
	m.hbChanSend(ch)
}

func (m *machine) chanRecv(chv value, et types.Type) (value, bool) {
	ch := chv.(*chanV)
	if ch == nil {
		m.end("deadlock", "receive from nil channel at "+m.where())
	}
	for {
		if len(ch.buf) > 0 {
			v := ch.buf[0]
			ch.buf = append([]value(nil), ch.buf[1:]...)
			m.hbChanRecv(ch)
			return v, true
		}
		if ch.closed {
			m.hbAcquire(ch)
			return m.zero(et), false
		}
		if ch.timer {
			ch.fired = true
			return m.zero(et), true
		}
		if !m.multi() {
			m.end("deadlock", "receive on empty channel at "+m.where())
		}
		got, v, ok := m.blockRecv("chan receive", []*chanV{ch}, func() bool { return len(ch.buf) > 0 || ch.closed || ch.timer })
		if got != nil {
			return v, true
		}
		if !ok {
			m.end("deadlock", "receive on empty channel at "+m.where())
		}
	}
}

type selState struct {
	ch   *chanV
	send value
	dir  types.ChanDir
}

func states2chans(sts []selState) []selState { return sts }

func recvChans(sts []selState) []*chanV {
	var out []*chanV
	for _, s := range sts {
		if s.ch != nil && s.dir != types.SendOnly && !s.ch.timer {
			out = append(out, s.ch)
		}
	}
	return out
}

func (m *machine) selectInstr(fr *frame, instr *ssa.Select) value {
	type st = selState
	var states []st
	for _, s := range instr.States {
		ch := fr.get(s.Chan).(*chanV)
		var sv value
		if s.Dir == types.SendOnly {
			sv = fr.get(s.Send)
		}
		states = append(states, st{ch, sv, s.Dir})
	}
	for {
		var ready []int
		for i, s := range states {
			if s.ch == nil {
				continue
			}
			if s.dir == types.SendOnly {
				if len(s.ch.buf) < s.ch.cap || s.ch.closed {
					ready = append(ready, i)
				}
			} else if len(s.ch.buf) > 0 || s.ch.closed {
				ready = append(ready, i)
			}
		}
		// timer channels may fire at any time: they are ready, but only chosen
		// in addition to really ready ones through an explicit choice
		var timers []int
		for i, s := range states {
			if s.ch != nil && s.ch.timer && s.dir != types.SendOnly && len(s.ch.buf) == 0 {
				timers = append(timers, i)
			}
		}
		cands := append(append([]int(nil), ready...), timers...)
		if _, off := m.side["timers-off"]; off && len(ready) == 0 && len(timers) > 0 && instr.Blocking && m.multi() {
			// the harness excluded timer expiry on this path: wait for a ready case
			anyReady := func() bool {
				for _, s := range states {
					if s.ch != nil && s.dir != types.SendOnly && (len(s.ch.buf) > 0 || s.ch.closed) {
						return true
					}
					if s.ch != nil && s.dir == types.SendOnly && len(s.ch.buf) < s.ch.cap {
						return true
					}
				}
				return false
			}
			if got, v, ok := m.blockRecv("select", recvChans(states2chans(states)), anyReady); got != nil {
				for i, s := range states {
					if s.ch == got && s.dir != types.SendOnly {
						return m.selectResult(instr, i, v, true)
					}
				}
			} else if ok {
				continue
			}
		}
		if len(ready) > 0 {
			// a really ready case wins over a timer that has not fired yet
			timers = nil
		}
		if len(ready) == 0 && len(timers) > 0 && instr.Blocking && m.multi() {
			// nothing is ready yet: either the timer fires now or this goroutine waits
			// and lets the others run (the timer may still fire later)
			if m.chooseN(2, "timer") == 1 {
				anyReady := func() bool {
					for _, s := range states {
						if s.ch == nil {
							continue
						}
						if s.dir == types.SendOnly {
							if len(s.ch.buf) < s.ch.cap {
								return true
							}
						} else if len(s.ch.buf) > 0 || s.ch.closed {
							return true
						}
					}
					return false
				}
				if got, v, ok := m.blockRecv("select", recvChans(states2chans(states)), anyReady); got != nil {
					for i, s := range states {
						if s.ch == got && s.dir != types.SendOnly {
							return m.selectResult(instr, i, v, true)
						}
					}
				} else if ok {
					continue
				}
				// nobody else can run: the timer is the only way forward
			}
		}
		if len(cands) == 0 {
			if !instr.Blocking {
				return m.selectResult(instr, -1, nil, false)
			}
			anyReady := func() bool {
				for _, s := range states {
					if s.ch == nil {
						continue
					}
					if s.dir == types.SendOnly {
						if len(s.ch.buf) < s.ch.cap {
							return true
						}
					} else if len(s.ch.buf) > 0 || s.ch.closed {
						return true
					}
				}
				return false
			}
			got, v, ok := m.blockRecv("select", recvChans(states2chans(states)), anyReady)
			if got != nil {
				for i, s := range states {
					if s.ch == got && s.dir != types.SendOnly {
						return m.selectResult(instr, i, v, true)
					}
				}
			}
			if !ok {
				m.end("deadlock", "select with no ready case at "+m.where())
			}
			continue
		}
		pick := cands[0]
		if len(cands) > 1 {
			k := m.chooseN(len(cands), "select")
			pick = cands[k]
		}
		s := states[pick]
		if s.dir == types.SendOnly {
			m.chanSend(s.ch, s.send)
			return m.selectResult(instr, pick, nil, false)
		}
		v, ok := m.chanRecv(s.ch, instr.States[pick].Chan.Type().Underlying().(*types.Chan).Elem())
		return m.selectResult(instr, pick, v, ok)
	}
}

func (m *machine) selectResult(instr *ssa.Select, idx int, recv value, recvOk bool) value {
	r := tuple{m.ctx.BV(uint64(int64(idx)), 64), m.ctx.Bool(recvOk)}
	for i, s := range instr.States {
		if s.Dir == types.RecvOnly {
			if i == idx {
				r = append(r, recv)
			} else {
				r = append(r, m.zero(s.Chan.Type().Underlying().(*types.Chan).Elem()))
			}
		}
	}
	return r
}

// chooseN is a nondeterministic choice 0..n-1: forks without the solver.
func (m *machine) chooseN(n int, what string) int {
	v := 0
	if m.eng.concrete != nil {
		v = m.eng.concreteChoice(n)
		kind := "choose"
		if what != "Choose" {
			kind = "internal"
		}
		m.nondets = append(m.nondets, nondetRec{Name: fmt.Sprintf("n%d_%s", len(m.nondets), kind), Term: m.ctx.BV(uint64(v), 64), Kind: kind, Extra: n})
		return v
	}
	if m.di < len(m.prefix) {
		d := m.prefix[m.di]
		if d.Kind != 'c' {
			panic(fmt.Sprintf("decision replay mismatch: want choice, have %c at %s", d.Kind, m.where()))
		}
		v = int(d.V)
		m.di++
	} else {
		m.di++
		for alt := 1; alt < n; alt++ {
			p := make([]decision, len(m.trace), len(m.trace)+1)
			copy(p, m.trace)
			p = append(p, decision{Kind: 'c', V: uint64(alt)})
			m.w.push(p)
		}
	}
	m.trace = append(m.trace, decision{Kind: 'c', V: uint64(v)})
	kind := "choose"
	if what != "Choose" {
		kind = "internal" // engine-internal choice (select, timer): not consumed by the native replay
	}
	m.nondets = append(m.nondets, nondetRec{Name: fmt.Sprintf("n%d_%s", len(m.nondets), kind), Term: m.ctx.BV(uint64(v), 64), Kind: kind, Extra: n})
	return v
}

var _ = unsafe.Sizeof(0)

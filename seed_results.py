#!/usr/bin/env python3
"""seed_results.py <matrix.log> : writes seeded/RESULTS.md from the output of seed_matrix.sh"""
import sys, re, json, os
rows = []
for line in open(sys.argv[1]):
    m = re.match(r'^(C\d+_[A-Za-z0-9_]+): tier=(\w+) exit=(\d+) time=(\d+)s inconclusive=(\d+)\s*(.*)$', line.strip())
    if not m:
        continue
    name, tier, rc, t, inc, rest = m.groups()
    hv = re.search(r'harness=(\w+) (\w+) ([\w-]+)', rest)
    verdict = 'MISSED'
    by = ''
    if rc == '1' and 'VIOLATION' in rest:
        verdict = 'caught (native replay confirmed)'
        if hv:
            by = '%s / %s %s' % (hv.group(1), hv.group(2), hv.group(3))
    elif 'UNCONFIRMED' in rest:
        verdict = 'found by the engine, NOT confirmed natively'
        u = re.search(r'harness=(\w+) (\w+) ([\w-]+)', rest)
        if u:
            by = '%s / %s %s' % (u.group(1), u.group(2), u.group(3))
    elif inc != '0':
        verdict = 'inconclusive (%s items)' % inc
    rows.append((name, tier, verdict, by, t))
    mp = os.path.join('/verif/seeded', name, 'meta.json')
    if os.path.exists(mp):
        try:
            meta = json.load(open(mp))
        except Exception:
            meta = {}
        meta['property'] = name.split('_')[0]
        meta['check_result_' + tier] = verdict
        meta['caught_by'] = by
        meta['run'] = './seed_matrix.sh %s %s   (equivalently: git -C /repo apply patch.diff; ./vcheck %s %s; git -C /repo checkout -- .)' % (tier, name, name.split('_')[0], tier)
        meta['confirmed_here'] = 'seed_verify.sh in a scratch worktree: compiles, existing suite passes (load-sensitive proxy tests aside), demo fails with the change and passes without it'
        json.dump(meta, open(mp, 'w'), indent=1)
caught = sum(1 for r in rows if r[2].startswith('caught'))
out = ['# Seeded changes and what the checks report', '',
       'Produced by `./seed_matrix.sh %s` + `./seed_results.py` (each change applied to a scratch worktree of /repo, the quick check of its property run from a snapshot of /verif, worktree restored).' % (rows[0][1] if rows else 'quick'),
       'Names with `_r2_` belong to the second round (sub-agents started after the checks existed).', '',
       '**%d of %d reported as VIOLATION with a native replay.**' % (caught, len(rows)), '',
       '| seeded change | result | harness / assertion | check time |', '|---|---|---|---|']
for name, tier, verdict, by, t in rows:
    out.append('| %s | %s | %s | %ss |' % (name, verdict, by, t))
open('/verif/seeded/RESULTS.md', 'w').write('\n'.join(out) + '\n')
print(caught, 'of', len(rows))

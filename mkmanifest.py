#!/usr/bin/env python3
"""Regenerates MANIFEST.json from checks.json + manifest_meta.json (level texts, not_applicable reasons)."""
import json, subprocess
checks = json.load(open('checks.json'))
meta = json.load(open('manifest_meta.json'))
props = [json.loads(l) for l in open('properties.jsonl')]
base_cmd = "for m in $(cat /w/out/gomods.txt); do MF=$(cd /repo/$m && . /w/out/goenv.sh && gomodflag); (cd /repo/$m && go test $MF -json -vet=off -count=1 -timeout 25m ./...); done"
try:
    base_cmd = json.load(open('/root/.vp/BASELINE.json'))['cmd']
except Exception:
    pass
man = {
 "version": 1,
 "setup_cmd": "cd /verif && ./vcheck build && (./vcheck selftest -n 1 > selftest.log 2>&1 || true)",
 "hooks": {
  "guard": "verif",
  "enable": "no source change in /repo: harnesses are in-package files (build tag `verif`) injected with a go/packages overlay for the symbolic engine and with `go test -tags verif -overlay` for native replay",
  "baseline_off_cmd": base_cmd,
  "source_commits": meta.get("source_commits", []),
  "add_only": True
 },
 "engines": [{
  "name": "gosmt", "path": "/verif/engine",
  "serves_properties": sorted(k for k in checks if k in meta["checks"]),
  "kind_free_text": "own SSA->SMT symbolic interpreter for Go (go/ssa v0.29.0) + z3 4.8.12; counterexamples replayed natively with go test -overlay"
 }],
 "checks": [],
 "not_applicable": [],
 "notes": meta.get("notes", "")
}
for p in props:
    pid = p['id']
    if pid in checks and pid in meta["checks"]:
        m = meta["checks"][pid]
        c = {
         "property_id": pid,
         "quick_cmd": "./vcheck %s quick" % pid,
         "evidence_file": "/verif/evidence/%s.json" % pid,
         "replay_cmd_template": "./vcheck replay {path}",
         "engine": "gosmt",
         "level_claimed": {"category": "other", "text": m["level_text"], "design_ref": m.get("design_ref", "DESIGN.md section 5")},
         "level_note": m["level_note"],
         "technique": m.get("technique", "bounded symbolic execution of the real Go code (go/ssa -> SMT bit-vectors), decided by z3; counterexamples replayed natively")
        }
        if checks[pid].get("thorough"):
            c["thorough_cmd"] = "./vcheck %s thorough" % pid
        man["checks"].append(c)
    else:
        man["not_applicable"].append({"property_id": pid, "reason": meta["not_applicable"].get(pid, "no check built yet for this property (work in progress); nothing is claimed")})
json.dump(man, open('MANIFEST.json', 'w'), indent=1)
print("claimed:", [c["property_id"] for c in man["checks"]])

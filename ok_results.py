#!/usr/bin/env python3
"""ok_results.py <ok_matrix.log> [<rerun.log> ...]: writes preserving/RESULTS.md (later logs override earlier lines)."""
import sys, re, json, os
rows = {}
for f in sys.argv[1:]:
    for l in open(f):
        m = re.match(r'(\S+) (C\d\d): tier=(\w+) exit=(\d+) time=(\d+)s\s*(.*)', l)
        if not m:
            continue
        name, prop, tier, rc, t, rest = m.groups()
        verdict = 'pass'
        if 'VIOLATION' in rest or rc != '0':
            verdict = 'FALSE ALARM'
        elif 'INCONCLUSIVE' in rest:
            verdict = 'inconclusive'
        rows[(name, prop)] = (verdict, int(t), rest.strip()[:160])
names = sorted({n for n, _ in rows})
out = ["# Behaviour-preserving changes: what the checks report", "",
       "Each change keeps every property true (argument in its meta.json). `pass` = exit 0, no VIOLATION, nothing inconclusive;",
       "`inconclusive` = exit 0 but part of the check could not be decided on the changed code (engine gap or budget), `FALSE ALARM` = a VIOLATION line.", ""]
tot = {'pass': 0, 'inconclusive': 0, 'FALSE ALARM': 0}
for n in names:
    meta = json.load(open(os.path.join('/verif/preserving', n, 'meta.json')))
    out.append("## %s" % n)
    out.append(meta.get('what_changed', '')[:400].replace('\n', ' '))
    out.append("")
    out.append("| property | result | time | note |")
    out.append("|---|---|---|---|")
    for (nn, p), (v, t, rest) in sorted(rows.items()):
        if nn == n:
            tot[v] += 1
            out.append("| %s | %s | %ds | %s |" % (p, v, t, rest.replace('|', '/') if v != 'pass' else ''))
    out.append("")
out.insert(4, "Totals: %d runs pass, %d inconclusive, %d false alarms." % (tot['pass'], tot['inconclusive'], tot['FALSE ALARM']))
open('/verif/preserving/RESULTS.md', 'w').write("\n".join(out) + "\n")
print(tot)

#!/bin/bash
# seed_run.sh <seeded-name> <args to vcheck...>: apply a seeded change to /repo, run a check, undo it.
S=/verif/seeded/$1; shift
git -C /repo apply $S/patch.diff || { echo "patch does not apply"; exit 2; }
trap 'git -C /repo checkout -- . ' EXIT
/verif/vcheck "$@"
echo "exit=$?"
